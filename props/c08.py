"""C08 — in-place assignment matches list assignment, promotes or rejects, and is atomic (Engine E + fault enumeration)."""
from __future__ import annotations

import itertools
from datetime import date, datetime

from mc import core, provenance
from mc.core import Agg, V
from mc.models import canon_elem, obs, same_list, same_value, schema_of, belongs

RULE = ("vectors of 8 kinds x nullable/non-nullable x length 0..N x every key (ints in [-n-2,n+1], slice box, all masks of length n-1..n+1 as list "
        "and Vector, index lists/tuples/Vectors of length<=2 incl. duplicates and out-of-range at each position) x every value form (scalars of "
        "10 kinds incl. None; sequences list/tuple/Vector of right and wrong length with the first wider / incompatible / None value at each "
        "position; FAULTS: __len__ raising, iterator raising at element k for every k, generators); tables<=2x3 cell/row/column/region "
        "assignment with an incompatible value in each column in turn; rename_columns with every old/new list of length<=3. "
        "After ANY exception the object must be exactly as before (contents, dtype, name, fingerprint, still writable). "
        "non-trivial = assignment that promotes, is rejected, or fails at a fault point")
ASSUMPTIONS = ["a bool column receiving an int/float/complex may either be promoted or cleanly refused (statement does not fix it)",
               "[] as key is ambiguous (empty mask / empty index list) and not judged for n>0",
               "failing multi-column TABLE assignments: each column must be either assigned as the model says or untouched "
               "(the statement's atomicity clause speaks of 'the vector')"]

VARIANT = [0]
D1, D2, D3 = date(2020, 1, 2), date(2021, 3, 4), date(1999, 9, 9)
T1, T2, T3 = datetime(2020, 1, 2, 3, 4), datetime(2021, 3, 4, 5, 6), datetime(1999, 9, 9, 9, 9)
BASE = {
    "bool": [True, False, True, False], "int": [10, 11, 12, 13], "float": [0.5, 1.5, 2.5, 3.5], "complex": [1j, 2j, 3j, 4j],
    "str": ["a", "b", "c", "d"], "date": [D1, D2, D3, D1], "datetime": [T1, T2, T3, T1], "object": [1, "a", 2.5, b"x"],
}
KIND = {"bool": bool, "int": int, "float": float, "complex": complex, "str": str, "date": date, "datetime": datetime, "object": object}
SCALARS = [True, False, 0, "", 7, 7.5, 7.0, -0.0, 7j, "z", b"q", D3, T3, None]      # 7.0 / -0.0: integral-valued floats are floats
NUM = [bool, int, float, complex]
PROMOTE_OK = {(int, float), (int, complex), (float, complex), (date, datetime)}


def fits(val, kind):
    """stored without changing the kind (exact or documented widening)"""
    if kind is object:
        return True
    t = type(val)
    if t is kind:
        return True
    if kind in NUM and t in NUM:
        return NUM.index(t) <= NUM.index(kind)
    if kind is datetime and t is date:
        return True
    return False


def convert(x, kind):
    if x is None:
        return None
    if kind is float:
        return float(x)
    if kind is complex:
        return complex(x)
    if kind is datetime:
        return x if isinstance(x, datetime) else datetime.combine(x, datetime.min.time())
    return x


def model_assign(values, kind, nullable, positions_values):
    """Return ('ok', new_values, new_kind, new_nullable) | ('type-error',) | ('either', okresult)."""
    k, nl = kind, nullable
    either = False
    for _, val in positions_values:
        if val is None:
            nl = True
            continue
        if k is None:
            continue
        if fits(val, k):
            continue
        tv = type(val)
        if tv is bool and False:
            pass
        if (k, tv) in PROMOTE_OK:
            k = tv
            continue
        if k is bool and tv in (int, float, complex):
            either = True      # not fixed by the statement: promotion or clean refusal
            k = tv
            continue
        return ("type-error",)
    out = [convert(x, k) if k is not kind else x for x in values]
    for pos, val in positions_values:
        out[pos] = val
    res = ("ok", out, k, nl)
    return ("either", res) if either else res


def resolve_key(kdesc, n):
    """positions list | ('error', class-name)"""
    kind = kdesc[0]
    if kind == "int":
        i = kdesc[1]
        if -n <= i < n:
            return [i % n]
        return ("error", "index")
    if kind == "slice":
        return list(range(*slice(*kdesc[1]).indices(n)))
    if kind in ("mask-list", "mask-vector"):
        bits = kdesc[1]
        if len(bits) != n:
            return ("error", "mask-length")
        return [i for i, b in enumerate(bits) if b]
    if kind in ("idx-list", "idx-tuple", "idx-vector"):
        out = []
        for i in kdesc[1]:
            if not (-n <= i < n):
                return ("error", "index")
            out.append(i % n)
        return out
    raise AssertionError(kdesc)


def real_key(kdesc):
    from serif import Vector
    kind = kdesc[0]
    if kind == "int":
        return kdesc[1]
    if kind == "slice":
        return slice(*kdesc[1])
    if kind == "mask-list":
        return list(kdesc[1])
    if kind == "mask-vector":
        return Vector(list(kdesc[1]), dtype=bool)
    if kind == "idx-list":
        return list(kdesc[1])
    if kind == "idx-tuple":
        return tuple(kdesc[1])
    return Vector(list(kdesc[1]), dtype=int)


def keys_for(n):
    ks = [("int", i) for i in range(-n - 2, n + 2)]
    rng = [None] + list(range(-n - 1, n + 2))
    for a in rng:
        for b in rng:
            for st in (None, 1, 2, -1):
                ks.append(("slice", (a, b, st)))
    for m in (n - 1, n, n + 1):
        if m < 0:
            continue
        for bits in itertools.product([False, True], repeat=m):
            if m == 0:
                if n > 0:
                    continue
                ks.append(("mask-vector", bits))
                continue
            ks.append(("mask-list", bits))
            ks.append(("mask-vector", bits))
    idx = list(range(-n - 1, n + 1))
    for L in (1, 2):
        for tup in itertools.product(idx, repeat=L):
            ks.append(("idx-list", tup))
            ks.append(("idx-vector", tup))
            if L == 2:
                ks.append(("idx-tuple", tup))
    return ks


class BadLen:
    def __iter__(self):
        return iter([1, 2, 3])
    def __len__(self):
        raise RuntimeError("len fault")


class BadIter:
    def __init__(self, vals, k):
        self.vals, self.k = list(vals), k
    def __len__(self):
        return len(self.vals)
    def __iter__(self):
        for i, v in enumerate(self.vals):
            if i == self.k:
                raise RuntimeError(f"iterator fault at {i}")
            yield v
    def __repr__(self):
        return f"BadIter({self.vals!r}, raises_at={self.k})"


def keys_long(n):
    """designated key grid for long vectors (size thresholds)"""
    ks = [("int", i) for i in (0, 1, n // 2, n - 1, -1, -n, n, -n - 1)]
    for a in (None, 0, 1, n // 2, n - 1, n, -1, -n):
        for b in (None, 0, n // 2, n, -1, n + 3):
            for st in (None, 1, 2, 3, -1):
                ks.append(("slice", (a, b, st)))
    pats = [[i % 2 == 0 for i in range(n)], [i < n // 2 for i in range(n)], [i == n - 1 for i in range(n)], [False] * n, [True] * n]
    for bits in pats:
        ks.append(("mask-list", tuple(bits)))
        ks.append(("mask-vector", tuple(bits)))
    ks.append(("mask-list", tuple(pats[0][:-1])))
    ks.append(("mask-vector", tuple(pats[0] + [True])))
    for tup in ((0, n - 1), (-1, -n), (n // 2, n // 2), (0, n), tuple(range(0, n, 4)), tuple(range(n - 1, -1, -1))):
        ks.append(("idx-list", tup))
        ks.append(("idx-vector", tup))
        ks.append(("idx-tuple", tup))
    return ks


def value_forms_long(kind, m, same):
    """reduced value menu for keys that select many positions: the special value first / in the middle / last"""
    out = [("scalar", s) for s in SCALARS]
    wider = {"bool": 7, "int": 7.5, "float": 7j, "complex": None, "str": None, "date": T3, "datetime": None, "object": None}[kind]
    incompat = {"bool": "z", "int": "z", "float": "z", "complex": "z", "str": 7, "date": 7, "datetime": "z", "object": None}[kind]
    cyc = (list(same) * (m // max(len(same), 1) + 2))
    seqs = [cyc[:m], cyc[:m + 1]] + ([cyc[:m - 1]] if m else [])
    for pos in sorted({0, m // 2, m - 1} if m else set()):
        for special in (wider, incompat, "NONE"):
            if special is None:
                continue
            s_ = list(cyc[:m])
            s_[pos] = None if special == "NONE" else special
            seqs.append(s_)
    if m >= 2 and wider is not None and incompat is not None:
        s_ = list(cyc[:m]); s_[0] = wider; s_[m - 1] = incompat
        seqs.append(s_)
    for s_ in seqs:
        for form in ("list", "vector"):
            if form == "vector" and not s_:
                continue
            out.append(("seq", form, s_))
    for k in sorted({0, m // 2, m}):
        out.append(("fault", "baditer", (cyc[:m], k)))
    out.append(("fault", "generator", cyc[:m]))
    return out


def value_forms(kind, m, same):
    """Value descriptions for a key selecting m positions.  ('scalar', v) | ('seq', form, [vals]) | ('fault', name, payload)"""
    out = [("scalar", s) for s in SCALARS]
    wider = {"bool": 7, "int": 7.5, "float": 7j, "complex": None, "str": None, "date": T3, "datetime": None, "object": None}[kind]
    incompat = {"bool": "z", "int": "z", "float": "z", "complex": "z", "str": 7, "date": 7, "datetime": "z", "object": None}[kind]
    seqs = []
    if m >= 0:
        seqs.append(list(same[:m]) if len(same) >= m else (list(same) * 3)[:m])
        for pos in range(m):
            for special in (wider, incompat, "NONE"):
                if special is None:
                    continue
                s = list((list(same) * 3)[:m])
                s[pos] = None if special == "NONE" else special
                seqs.append(s)
            if m >= 2 and wider is not None and incompat is not None:
                s = list((list(same) * 3)[:m])
                s[pos] = wider
                s[(pos + 1) % m] = incompat
                seqs.append(s)
            if m >= 2 and wider is not None:
                s = list((list(same) * 3)[:m])        # a promoting value AND a None in one assignment
                s[pos] = wider
                s[(pos + 1) % m] = None
                seqs.append(s)
        seqs.append((list(same) * 3)[:m + 1])
        if m >= 1:
            seqs.append((list(same) * 3)[:m - 1])
    for s in seqs:
        for form in ("list", "tuple", "vector"):
            if form == "vector" and not s:
                continue
            out.append(("seq", form, s))
    out.append(("fault", "badlen", None))
    for k in range(m + 1):
        out.append(("fault", "baditer", ((list(same) * 3)[:m], k)))
    out.append(("fault", "generator", (list(same) * 3)[:m]))
    return out


def real_value(vd):
    from serif import Vector
    if vd[0] == "scalar":
        return vd[1]
    if vd[0] == "seq":
        _, form, s = vd
        return list(s) if form == "list" else (tuple(s) if form == "tuple" else Vector(list(s)))
    _, name, payload = vd
    if name == "badlen":
        return BadLen()
    if name == "baditer":
        return BadIter(payload[0], payload[1])
    return (x for x in payload)


def expected(values, kind, nullable, kdesc, vd):
    n = len(values)
    pos = resolve_key(kdesc, n)
    if isinstance(pos, tuple):
        return ("fail", pos[1])
    if vd[0] == "scalar":
        pv = [(p, vd[1]) for p in pos]
    elif vd[0] == "seq":
        if kdesc[0] == "int":
            pv = [(pos[0], real_value(vd))]     # a sequence assigned to ONE position is one (object) element
            return ("seq-as-element", pv)
        if len(vd[2]) != len(pos):
            return ("fail", "length")
        pv = list(zip(pos, vd[2]))
    else:
        name, payload = vd[1], vd[2]
        if kdesc[0] == "int":
            return ("unspecified",)
        if name == "badlen":
            return ("fail", "fault")
        if name == "baditer":
            vals, k = payload
            if k < len(vals):
                return ("fail", "fault")
            if len(vals) != len(pos):
                return ("fail", "length")
            pv = list(zip(pos, vals))
        else:
            return ("fail-or-ok", list(zip(pos, payload)) if len(payload) == len(pos) else None)
    k = None if kind is None else kind
    return ("model", model_assign(values, k, nullable, pv))


def fp_fresh(values):
    from serif import Vector
    return Vector(list(values)).fingerprint()


def unit_vector(unit):
    from serif import Vector
    from serif.errors import SerifTypeError
    _, kname, nullable, n = unit[:4]
    long_ = len(unit) > 4
    agg = Agg()
    base = list(BASE[kname][:n]) if not long_ else [BASE[kname][i % 4] for i in range(n)]
    if nullable and n:
        base[-1] = None
    if nullable and not n:
        return agg
    probe = Vector(list(base)).schema()      # the model starts from the dtype the vector really reports (C04 decides inference)
    kind = probe.kind if probe is not None else None
    nullable = bool(probe.nullable) if probe is not None else False
    same = [x for x in BASE[kname] if x is not None] or [1]
    keys = keys_for(n) if not long_ else keys_long(n)
    d = {"kind": kname, "values": base if not long_ else base[:4] + ["... cycled"], "len": n, "nullable": nullable}
    for kdesc in keys:
        pos = resolve_key(kdesc, n)
        m = len(pos) if isinstance(pos, list) else 1
        for vd in (value_forms if not long_ else value_forms_long)(kname, m, same):
            exp = expected(base, kind, nullable, kdesc, vd)
            if exp[0] in ("unspecified", "seq-as-element"):
                agg.skipped[exp[0]] += 1
                continue
            agg.states += 1
            agg.evals += 1
            agg.transitions += 1
            case = dict(d, key=list(kdesc[:1]) + [list(kdesc[1]) if isinstance(kdesc[1], tuple) else kdesc[1]],
                        value=(vd[1] if vd[0] == "scalar" else [vd[0], vd[1], vd[2]]))
            VARIANT[0] += 1
            route, v = provenance.vector_variant(list(base), "nm", VARIANT[0])
            case["route"] = route
            s0 = schema_of(v)
            fp0 = v.fingerprint()           # cached before the write
            before = obs(v)
            # objects derived from v stay alive across the assignment (whole-range slice, copy, mask of everything, double reverse, sort):
            # they are values of their own - the assignment must neither be refused because of them nor show through them
            dk = VARIANT[0] % 6
            try:
                keep = [lambda: None, lambda: v[:], lambda: v[0:len(v)], lambda: v.copy(), lambda: v[[True] * len(v)], lambda: v[::-1][::-1]][dk]()
            except Exception:
                keep = None
            keep_obs = obs(keep) if keep is not None else None
            case["live_derived_object"] = ["none", "v[:]", "v[0:len(v)]", "v.copy()", "v[all-True mask]", "v[::-1][::-1]"][dk]
            key_obj, val_obj = real_key(kdesc), real_value(vd)
            key_img, val_img = _arg_image(key_obj), _arg_image(val_obj)
            try:
                v[key_obj] = val_obj
                raised = None
            except Exception as e:
                raised = e
            agg.compared += 1
            site = f"setitem.{kdesc[0]}.{vd[0] if vd[0] != 'fault' else 'fault-' + vd[1]}"
            if keep is not None and obs(keep) != keep_obs:
                agg.violation(V(site, "assignment-shows-through-a-derived-object", case, keep_obs, obs(keep)))
                continue
            if raised is not None and type(raised).__name__ == "AliasError":
                agg.violation(V(site, "valid-assignment-refused-AliasError", case, None, repr(raised)[:80]))
                continue
            # Python's list assignment never touches the key or the value it is given
            if _arg_image(key_obj) != key_img or _arg_image(val_obj) != val_img:
                agg.violation(V(site, "assignment-changed-its-" + ("key" if _arg_image(key_obj) != key_img else "value") + "-argument",
                                dict(case, raised=type(raised).__name__ if raised else None), repr(key_img)[:120], repr(_arg_image(key_obj))[:120]))
                continue
            # ... so the SAME key object addresses the same relative positions of a longer vector afterwards
            if raised is None and kdesc[0] in ("idx-list", "idx-vector", "idx-tuple") and n and len(same) > 1 and kname != "object":
                agg.evals += 1; agg.transitions += 1; agg.compared += 1
                longer = list(base) + [same[0]]
                pos2 = resolve_key(kdesc, n + 1)
                try:
                    v2 = Vector(list(longer))
                    v2[key_obj] = same[-1]
                    got2 = list(v2._underlying)
                except Exception as e2:
                    got2 = e2
                if isinstance(pos2, list):
                    want2 = list(longer)
                    for p_ in pos2:
                        want2[p_] = same[-1]
                    if isinstance(got2, Exception) or not all((g is None) == (w is None) and (g is None or g == w) for g, w in zip(got2, want2)):
                        agg.violation(V(site, "reused-key-addresses-other-positions", dict(case, second_vector=longer, second_value=same[-1]), want2,
                                        repr(got2)[:80] if isinstance(got2, Exception) else got2))
                        continue
                    agg.outcomes["key-reuse-ok"] += 1
            py = (f"from serif import Vector\nfrom datetime import date, datetime\nv = Vector({base!r}, name='nm')\n"
                  f"try:\n    v[{_keysrc(kdesc)}] = {_valsrc(vd)}\nexcept Exception as e: print('raised', type(e).__name__)\n"
                  f"print(list(v), v.schema())")
            # ---------------- failure expected or observed: atomicity
            if raised is not None:
                ok_to_fail = exp[0] in ("fail", "fail-or-ok") or (exp[0] == "model" and exp[1][0] in ("type-error", "either"))
                if obs(v) != before or v._name != "nm":
                    agg.violation(V(site, "failed-assignment-changed-the-vector", dict(case, error=type(raised).__name__), before, obs(v), py))
                    agg.outcomes["atomicity-broken"] += 1
                    continue
                if v.fingerprint() != fp_fresh(v._underlying) or v.fingerprint() != fp0:
                    agg.violation(V(site, "fingerprint-wrong-after-failed-assignment", case, None, None, py))
                    continue
                try:      # still writable (registry intact): a valid no-op write must succeed ...
                    if n:
                        v[0] = v._underlying[0]
                except Exception as e2:
                    agg.violation(V(site, "vector-unwritable-after-failed-assignment", dict(case, second=type(e2).__name__), None, None, py))
                    continue
                if obs(v) != before:      # ... and must write nothing but itself (no leftovers of the failed assignment)
                    agg.violation(V(site, "failed-assignment-takes-effect-with-the-next-valid-one", dict(case, error=type(raised).__name__), before, obs(v), py))
                    continue
                if not ok_to_fail:
                    agg.violation(V(site, "valid-assignment-refused-" + type(raised).__name__, case, exp, repr(raised)[:80], py))
                    continue
                if exp[0] == "model" and exp[1][0] == "type-error" and not isinstance(raised, SerifTypeError):
                    agg.violation(V(site, "incompatible-value-raises-" + type(raised).__name__ + "-not-SerifTypeError", case, "SerifTypeError", repr(raised)[:80], py))
                    continue
                agg.nontrivial += 1
                agg.outcomes["rejected-atomically"] += 1
                continue
            # ---------------- success observed
            if exp[0] == "fail":
                agg.violation(V(site, f"invalid-assignment-accepted-{exp[1]}", case, "error", list(v._underlying), py))
                continue
            if exp[0] == "fail-or-ok":
                if exp[1] is None:
                    agg.violation(V(site, "invalid-assignment-accepted-length", case, "error", list(v._underlying), py))
                    continue
                res = model_assign(base, kind, nullable, exp[1])
            else:
                res = exp[1]
            if res[0] == "either":
                res = res[1]
            if res[0] == "type-error":
                agg.violation(V(site, "incompatible-value-accepted", case, "SerifTypeError", {"values": list(v._underlying), "schema": schema_of(v)}, py))
                agg.outcomes["wrongly-accepted"] += 1
                continue
            _, want, wk, wn = res
            got = list(v._underlying)
            touched = {p for p in (resolve_key(kdesc, n) if isinstance(resolve_key(kdesc, n), list) else [])}
            if len(got) != n:
                agg.violation(V(site, "length-changed", case, n, len(got), py))
                continue
            good = True
            for i, (g, w) in enumerate(zip(got, want)):
                if (g is None) != (w is None) or (g is not None and not (g == w)):
                    good = False
                elif g is not None and i not in touched and not same_value(g, w):
                    good = False
            if not good:
                agg.violation(V(site, "contents-differ-from-list-assignment", case, want, got, py))
                agg.outcomes["wrong-contents"] += 1
                continue
            if v._name != "nm":
                agg.violation(V(site, "name-changed", case, "nm", v._name, py))
            s1 = schema_of(v)
            if wk is not None and (s1 is None or s1[0] != wk.__name__ or s1[1] != wn):
                sym = "none-accepted-but-column-not-nullable" if (s1 and s1[0] == wk.__name__ and wn and not s1[1]) else "dtype-after-assignment-wrong"
                agg.violation(V(site, sym, case, (wk.__name__, wn), s1, py))
                continue
            if wk is not None and any(g is not None and not belongs(g, wk) for g in got):
                agg.violation(V(site, "element-outside-kind-after-assignment", case, wk.__name__, got, py))
                continue
            if v.fingerprint() != fp_fresh(got):
                agg.violation(V(site, "fingerprint-stale-after-assignment", case, None, None, py))
                continue
            if s1 != s0 or got != base:
                agg.nontrivial += 1
            agg.outcomes["promoted" if (s0 and s1 and s1[0] != s0[0]) else "assigned"] += 1
    agg.sample(dict(d, keys=len(keys)))
    return agg


def _arg_image(x):
    """type-exact image of a key / value argument (None for one-shot or faulty arguments that cannot be looked at twice)"""
    if isinstance(x, (list, tuple)):
        return (type(x).__name__, tuple(canon_elem(e) for e in x))
    if hasattr(x, "_underlying") and hasattr(x, "_dtype"):
        return obs(x)
    if isinstance(x, (slice, int, float, str, bytes, bool, complex)) or x is None:
        return repr(x)
    return None


def _keysrc(kdesc):
    k, p = kdesc
    if k == "int":
        return repr(p)
    if k == "slice":
        return f"slice{tuple(p)!r}"
    if k == "mask-vector":
        return f"Vector({list(p)!r}, dtype=bool)"
    if k == "idx-vector":
        return f"Vector({list(p)!r}, dtype=int)"
    if k == "idx-tuple":
        return repr(tuple(p))
    return repr(list(p))


def _valsrc(vd):
    if vd[0] == "scalar":
        return repr(vd[1])
    if vd[0] == "seq":
        return {"list": repr(list(vd[2])), "tuple": repr(tuple(vd[2])), "vector": f"Vector({list(vd[2])!r})"}[vd[1]]
    return f"<fault object {vd[1]} {vd[2]!r}>"


# ------------------------------------------------------------------------------------------ tables
def unit_table(unit):
    from serif import Vector, Table
    agg = Agg()
    colsets = [
        [("a", [1, 2]), ("b", ["x", "y"]), ("c", [0.5, 1.5])],
        [("a", [1, 2]), ("b", [3, 4])],
        [("a", [True, False]), ("b", [D1, D2])],
        # all-int tables that are NOT square, so that a region and its source table have different row and column counts
        [("a", [1, 2, 3]), ("b", [4, 5, 6])],
        [("a", [1, 2]), ("b", [3, 4]), ("c", [5, 6])],
        [("a", [1]), ("b", [2])],
    ]
    vals = [7, 7.5, "z", None, True, D3]

    def mk(cs):
        return Table([Vector(list(v), name=nm) for nm, v in cs])

    def col_model(vals0, kindname_vals, pos_vals):
        kind = type([x for x in vals0 if x is not None][0])
        if kind is bool:
            kind = bool
        return model_assign(list(vals0), kind, any(x is None for x in vals0), pos_vals)

    def judge(site, case, t, cs, per_col_updates, raised):
        """per_col_updates: {col index: [(row, val)...]} for addressed columns."""
        agg.compared += 1
        all_ok = True
        for ci, (nm, vals0) in enumerate(cs):
            got = list(t._underlying[ci]._underlying)
            ups = per_col_updates.get(ci)
            if ups is None:
                if not same_list(got, vals0):
                    agg.violation(V(site, "unaddressed-column-changed", dict(case, column=nm), vals0, got))
                    all_ok = False
                continue
            res = col_model(vals0, None, ups)
            if res[0] == "either":
                res = res[1]
            untouched = same_list(got, vals0)
            if res[0] == "type-error":
                if not untouched:
                    agg.violation(V(site, "incompatible-value-stored-in-column", dict(case, column=nm), vals0, got))
                    all_ok = False
                elif raised is None:
                    agg.violation(V(site, "incompatible-value-silently-ignored", dict(case, column=nm), "SerifTypeError", got))
                    all_ok = False
                continue
            want = res[1]
            matches = len(got) == len(want) and all((g is None) == (w is None) and (g is None or g == w) for g, w in zip(got, want))
            if raised is None and not matches:
                agg.violation(V(site, "cells-differ-from-model", dict(case, column=nm), want, got))
                all_ok = False
            if raised is not None and not (matches or untouched):
                agg.violation(V(site, "column-half-assigned-after-failure", dict(case, column=nm), [vals0, want], got))
                all_ok = False
            if len(got) != len(vals0):
                agg.violation(V(site, "column-length-changed", dict(case, column=nm), len(vals0), len(got)))
                all_ok = False
        names = [c._name for c in t._underlying]
        if names != [nm for nm, _ in cs]:
            agg.violation(V(site, "column-names-changed", case, [nm for nm, _ in cs], names))
            all_ok = False
        # a valid assignment (every addressed column accepts its values by the model) must not be refused
        if raised is not None and all_ok and per_col_updates:
            verdicts = [col_model(cs[ci][1], None, ups)[0] for ci, ups in per_col_updates.items() if ci < len(cs)]
            if verdicts and all(v == "ok" for v in verdicts):
                agg.violation(V(site, "valid-table-assignment-refused-" + type(raised).__name__, case, "assigned", repr(raised)[:100]))
                all_ok = False
        agg.outcomes["table-ok" if all_ok and raised is None else ("table-rejected" if all_ok else "table-bad")] += 1

    for cs in colsets:
        ncol, nrow = len(cs), len(cs[0][1])
        d = {"table": cs}
        for val in vals:
            # cell
            for r in range(-1, nrow + 1):
                for ci, (nm, _) in enumerate(cs):
                    for keyform in ("name", "index"):
                        t = mk(cs); agg.evals += 1; agg.transitions += 1; agg.states += 1; agg.nontrivial += 1
                        case = dict(d, op="cell", row=r, col=nm if keyform == "name" else ci, value=val)
                        try:
                            t[r, nm if keyform == "name" else ci] = val
                            raised = None
                        except Exception as e:
                            raised = e
                        ups = {ci: [(r % nrow, val)]} if -nrow <= r < nrow else {}
                        if not (-nrow <= r < nrow):
                            if raised is None:
                                agg.violation(V("table.setitem.cell", "out-of-range-row-accepted", case))
                            ups = {}
                        judge("table.setitem.cell", case, t, cs, ups, raised)
            # row: each column in turn holds `val`, the others a compatible value
            for r in range(0, nrow):
                for bad in range(ncol):
                    row = [col[1][0] for col in cs]
                    row[bad] = val
                    for form in ("list", "tuple"):
                        t = mk(cs); agg.evals += 1; agg.transitions += 1; agg.states += 1; agg.nontrivial += 1
                        case = dict(d, op="row", row=r, values=row, form=form)
                        try:
                            t[r] = list(row) if form == "list" else tuple(row)
                            raised = None
                        except Exception as e:
                            raised = e
                        judge("table.setitem.row", case, t, cs, {ci: [(r, row[ci])] for ci in range(ncol)}, raised)
                # wrong width
                t = mk(cs); agg.evals += 1; agg.transitions += 1
                try:
                    t[r] = [val] * (ncol + 1)
                    agg.violation(V("table.setitem.row", "wrong-width-accepted", dict(d, row=r)))
                except Exception as e:
                    judge("table.setitem.row", dict(d, op="row-wrong-width"), t, cs, {}, e)
            # column (whole / slice of rows)
            for ci, (nm, _) in enumerate(cs):
                for pos in range(nrow):
                    colvals = list(cs[ci][1])
                    colvals[pos] = val
                    t = mk(cs); agg.evals += 1; agg.transitions += 1; agg.states += 1; agg.nontrivial += 1
                    case = dict(d, op="column", col=nm, values=colvals)
                    try:
                        t[:, nm] = list(colvals)
                        raised = None
                    except Exception as e:
                        raised = e
                    judge("table.setitem.column", case, t, cs, {ci: list(enumerate(colvals))}, raised)
                t = mk(cs); agg.evals += 1; agg.transitions += 1
                try:
                    t[:, nm] = [val] * (nrow + 1)
                    agg.violation(V("table.setitem.column", "wrong-length-accepted", dict(d, col=nm)))
                except Exception as e:
                    judge("table.setitem.column", dict(d, op="column-wrong-length", col=nm), t, cs, {}, e)
                # scalar broadcast down a column
                t = mk(cs); agg.evals += 1; agg.transitions += 1; agg.states += 1
                try:
                    t[:, nm] = val
                    raised = None
                except Exception as e:
                    raised = e
                judge("table.setitem.column-scalar", dict(d, op="column-scalar", col=nm, value=val), t, cs,
                      {ci: [(i, val) for i in range(nrow)]}, raised)
            # region from another table, incompatible value in each source column in turn
            if ncol >= 2:
                for bad in range(2):
                    src_cols = [(f"s{j}", [cs[j][1][0]] * nrow) for j in range(2)]
                    sc = [list(c[1]) for c in src_cols]
                    sc[bad][0] = val
                    src = Table([Vector(list(x), name=f"s{j}") for j, x in enumerate(sc)])
                    t = mk(cs); agg.evals += 1; agg.transitions += 1; agg.states += 1; agg.nontrivial += 1
                    case = dict(d, op="region", source=sc)
                    try:
                        t[0:nrow, (cs[0][0], cs[1][0])] = src
                        raised = None
                    except Exception as e:
                        raised = e
                    judge("table.setitem.region", case, t, cs, {j: list(enumerate(sc[j])) for j in range(2)}, raised)
                    if not same_list(list(src._underlying[bad]._underlying), sc[bad]):
                        agg.violation(V("table.setitem.region", "source-table-modified", case))
    # ---- systematic 2-D assignment: every row-spec x column-spec x value form against the per-column list model
    for cs in colsets:
        ncol, nrow = len(cs), len(cs[0][1])
        names = [nm for nm, _ in cs]
        d = {"table": cs}
        row_specs = [("int", r) for r in range(-nrow - 1, nrow + 1)] + [("slice", sl) for sl in ((None, None, None), (0, 1, None), (1, None, None), (None, None, -1), (0, 0, None))] + \
                    [("mask", tuple(m)) for m in itertools.product([True, False], repeat=nrow)]
        col_specs = [("int", c) for c in range(-ncol, ncol + 1)] + [("name", nm) for nm in names] + [("name", "no_such")] + \
                    [("slice", sl) for sl in ((None, None, None), (0, 1, None), (1, None, None), (None, None, -1))] + \
                    [("names", tuple(p)) for p in itertools.permutations(names, 2)] + [("ints", (0, ncol - 1))] + [("mixed", (names[0], ncol - 1))] + [("all", None)]
        for rk, rv in row_specs:
            if rk == "int":
                rows = [rv % nrow] if -nrow <= rv < nrow else None
                rkey = rv
            elif rk == "slice":
                rows = list(range(nrow))[slice(*rv)]
                rkey = slice(*rv)
            else:
                rows = [i for i, b in enumerate(rv) if b]
                rkey = list(rv)
            for ck, cv in col_specs:
                if ck == "int":
                    cols = [cv % ncol] if -ncol <= cv < ncol else None
                    ckey = cv
                elif ck == "name":
                    cols = [names.index(cv)] if cv in names else None
                    ckey = cv
                elif ck == "slice":
                    cols = list(range(ncol))[slice(*cv)]
                    ckey = slice(*cv)
                elif ck == "names":
                    cols = [names.index(x) for x in cv]
                    ckey = tuple(cv)
                elif ck == "ints":
                    cols = [c % ncol for c in cv]
                    ckey = list(cv)
                elif ck == "mixed":
                    cols = [names.index(cv[0]), cv[1] % ncol]
                    ckey = tuple(cv)
                else:
                    cols = list(range(ncol))
                    ckey = None
                # value forms
                vforms = [("scalar", 7), ("scalar-incompatible", "zz"), ("scalar-none", None)]
                if rows is not None and cols is not None and rk == "int":
                    vforms.append(("row-list", [100 + j for j in range(len(cols))]))
                    vforms.append(("row-list-wrong-length", [100 + j for j in range(len(cols) + 1)]))
                if rows is not None and cols is not None and rk != "int" and len(cols) == 1:
                    vforms.append(("column-list", [200 + i for i in range(len(rows))]))
                    vforms.append(("column-tuple", [210 + i for i in range(len(rows))]))
                    vforms.append(("column-vector", [220 + i for i in range(len(rows))]))          # a Vector is a same-length sequence too
                if rows is not None and cols is not None and rk == "slice" and len(cols) >= 1:
                    vforms.append(("table", [[300 + 10 * j + i for i in range(len(rows))] for j in range(len(cols))]))
                    if len(cols) >= 2:
                        vforms.append(("list-of-columns", [[400 + 10 * j + i for i in range(len(rows))] for j in range(len(cols))]))
                        vforms.append(("list-of-vectors", [[450 + 10 * j + i for i in range(len(rows))] for j in range(len(cols))]))
                    # a source table of the wrong width (one column more / fewer; also: as many ROWS as the target has columns)
                    vforms.append(("table-too-wide", [[500 + 10 * j + i for i in range(len(rows))] for j in range(len(cols) + 1)]))
                    if len(cols) >= 2:
                        vforms.append(("table-too-narrow", [[600 + 10 * j + i for i in range(len(rows))] for j in range(len(cols) - 1)]))
                for vk, vv in vforms:
                    t = mk(cs)
                    agg.evals += 1; agg.transitions += 1; agg.states += 1
                    case = dict(d, op="2d", rowspec=[rk, list(rv) if isinstance(rv, tuple) else rv], colspec=[ck, list(cv) if isinstance(cv, tuple) else cv], value=[vk, vv])
                    if vk.startswith("table"):
                        value = Table([Vector(list(c), name=f"s{j}") for j, c in enumerate(vv)])
                    elif vk == "column-vector":
                        value = Vector(list(vv), name="src")
                    elif vk == "column-tuple":
                        value = tuple(vv)
                    elif vk == "list-of-vectors":
                        value = [Vector(list(c)) for c in vv]
                    else:
                        value = vv
                    try:
                        if ckey is None:
                            t[rkey] = value
                        else:
                            t[rkey, ckey] = value
                        raised = None
                    except Exception as e:
                        raised = e
                    # model
                    ups = None
                    invalid = rows is None or cols is None
                    if not invalid:
                        ups = {}
                        if vk.startswith("scalar"):
                            for c in cols:
                                ups.setdefault(c, []).extend((r, vv) for r in rows)
                        elif vk == "row-list":
                            for j, c in enumerate(cols):
                                ups.setdefault(c, []).append((rows[0], vv[j]))
                        elif vk in ("row-list-wrong-length", "table-too-wide", "table-too-narrow"):
                            invalid = True
                        elif vk in ("column-list", "column-tuple", "column-vector"):
                            ups[cols[0]] = list(zip(rows, vv))
                        elif vk in ("table", "list-of-columns", "list-of-vectors"):
                            for j, c in enumerate(cols):
                                ups.setdefault(c, []).extend(zip(rows, vv[j]))
                    if invalid:
                        agg.compared += 1
                        if raised is None and not (cols == [] or (rows == [] and not vk.endswith("wrong-length") and not vk.startswith("table-too"))):
                            got = [list(c._underlying) for c in t._underlying]
                            if got != [list(v) for _, v in cs]:
                                agg.violation(V("table.setitem.2d", "invalid-key-or-shape-accepted-and-table-changed", case, "error", got))
                            else:
                                agg.skipped["invalid-2d-key-silently-ignored"] += 1
                        elif raised is not None:
                            got = [list(c._underlying) for c in t._underlying]
                            if got != [list(v) for _, v in cs]:
                                agg.violation(V("table.setitem.2d", "failed-2d-assignment-changed-the-table", case, [list(v) for _, v in cs], got))
                            else:
                                agg.outcomes["table-2d-rejected"] += 1
                        continue
                    if len(set(cols)) != len(cols):
                        agg.skipped["repeated-column-in-key"] += 1
                        continue
                    judge("table.setitem.2d", case, t, cs, ups, raised)
    # ---- the row key is one of the table's OWN columns (a live mask / index column): the addressed rows are those the key names
    # when the assignment starts - as with any list assignment, where the key is evaluated first
    own = [
        ({"flag": [True, False, True], "done": [True, True, True], "n": [1, 2, 3]}, "flag", False, ["flag", "done"]),
        ({"flag": [True, False, True], "done": [True, True, True], "n": [1, 2, 3]}, "flag", 0, ["n"]),
        ({"n": [1, 2, 3], "flag": [False, True, True]}, "flag", False, ["n", "flag"]),
        ({"i": [2, 0, 1], "x": [10, 20, 30], "y": [1, 2, 3]}, "i", 0, ["i", "x", "y"]),
        ({"x": [10, 20, 30], "i": [1, 1, 0]}, "i", 5, ["x", "i"]),
    ]
    for data, keycol, value, targets in own:
        for form in ("t[key] = v", "t[key, :] = v", "t[key, names] = v", "t[copy of key] = v"):
            t = Table({k: list(v) for k, v in data.items()})
            key = t[keycol]
            kvals = list(key._underlying)
            rows = [i for i, b in enumerate(kvals) if b] if isinstance(kvals[0], bool) else [int(i) for i in kvals]
            tcols = list(data) if form != "t[key, names] = v" else targets
            want = {k: [value if (i in rows and k in tcols) else x for i, x in enumerate(v)] for k, v in data.items()}
            agg.evals += 1; agg.transitions += 1; agg.states += 1; agg.nontrivial += 1; agg.compared += 1
            case = {"table": data, "row_key_is_the_tables_own_column": keycol, "value": value, "form": form}
            try:
                if form == "t[key] = v":
                    t[key] = value
                elif form == "t[key, :] = v":
                    t[key, :] = value
                elif form == "t[key, names] = v":
                    t[key, tuple(targets)] = value
                else:
                    t[key.copy()] = value
            except Exception as e:
                # whether a whole-table scalar write fits every column's kind is another matter: only completed writes are judged here
                agg.skipped["own-column-key-write-refused-" + type(e).__name__] += 1
                continue
            got = {c._name: list(c._underlying) for c in t._underlying}
            if any(not same_list(got[k], [x for x in want[k]]) and got[k] != want[k] for k in want):
                agg.violation(V("table.setitem.own-column-key", "rows-addressed-by-a-key-that-changed-during-the-assignment", case, want, got))
            else:
                agg.outcomes["table-ok"] += 1
    agg.sample({"tables": [c for c in colsets[0]]})
    return agg


# ------------------------------------------------------------------------------------------ the values are the table's own live columns
def unit_own_values(unit):
    """`t[rows, cols] = [t.b, t.a]`: the right-hand side holds LIVE columns of the very table that is written.  As with list
    assignment, the value is what it shows when the assignment starts; every (ordered) choice of <= 3 target columns, every
    same-size choice of source columns (repeats allowed) and every whole-table row key is enumerated."""
    import itertools
    from serif import Vector, Table
    agg = Agg()
    data = {"a": [1, 2, 3], "b": [4, 5, 6], "c": [7, 8, 9]}
    names = list(data)
    rowkeys = [("slice", slice(None)), ("index-list", [0, 1, 2]), ("index-list", [2, 0, 1]), ("mask", [True, True, True]),
               ("slice", slice(None, None, -1))]
    getters = [("t[name]", lambda t, n: t[n]), ("t.name", lambda t, n: getattr(t, n)),
               ("copy", lambda t, n: getattr(t, n).copy()), ("list", lambda t, n: list(getattr(t, n)))]
    for k in (1, 2, 3):
        for targets in itertools.permutations(names, k):
            for sources in itertools.product(names, repeat=k):
                for rk_name, rk in rowkeys:
                    rows = list(range(3))[rk] if isinstance(rk, slice) else ([i for i, b in enumerate(rk) if b] if rk_name == "mask" else rk)
                    for gname, get in getters:
                        for container in ("list", "tuple") + (("bare",) if k == 1 else ()):
                            t = Table({n: list(v) for n, v in data.items()})
                            vals = [get(t, s) for s in sources]
                            value = vals[0] if container == "bare" else (vals if container == "list" else tuple(vals))
                            if k == 1 and container != "bare" and gname == "list":
                                pass
                            want = {n: list(v) for n, v in data.items()}
                            for tg, s in zip(targets, sources):
                                for j, r in enumerate(rows):
                                    want[tg][r] = data[s][j]
                            case = {"table": data, "targets": list(targets), "value_is": f"{container} of {gname}", "sources": list(sources),
                                    "row_key": f"{rk_name} {rk!r}"}
                            agg.evals += 1; agg.transitions += 1; agg.states += 1; agg.nontrivial += 1; agg.compared += 1
                            try:
                                t[rk, tuple(targets) if k > 1 else targets[0]] = value
                            except Exception as e:
                                got = {c._name: list(c._underlying) for c in t._underlying}
                                if got != data:
                                    agg.violation(V("table.setitem.own-column-values", "failed-assignment-changed-the-table", case, data, got))
                                else:
                                    agg.violation(V("table.setitem.own-column-values", "valid-assignment-refused", case, want, f"{type(e).__name__}: {e}"))
                                continue
                            got = {c._name: list(c._underlying) for c in t._underlying}
                            if got != want:
                                agg.violation(V("table.setitem.own-column-values", "values-read-after-they-were-overwritten", case, want, got))
                            else:
                                agg.outcomes["table-ok"] += 1
    agg.sample({"own-column values": names})
    return agg


# ------------------------------------------------------------------------------------------ cells that are mutable objects
class _Box:
    def __init__(self, x):
        self.x = x

    def __eq__(self, o):
        return isinstance(o, _Box) and o.x == self.x

    def __hash__(self):
        return 5

    def __repr__(self):
        return f"Box({self.x})"


def unit_cells(unit):
    """the statements `v[k] = cell; <the caller edits cell in place>; v[k2] = other; read` driven on a Vector and on a Python list
    side by side: list assignment stores the OBJECT it is given, so after the caller's edit both hold equal contents (judged by
    value; which object identity a cell has is not asked).  Cell kinds list / dict / set / bytearray / a user object x every key form x every position."""
    from serif import Vector
    agg = Agg()
    makers = {"list": lambda: [1], "dict": lambda: {"k": 1}, "set": lambda: {1}, "bytearray": lambda: bytearray(b"a"), "object": lambda: _Box(1), "nested": lambda: [[1], 2]}
    mutate = {"list": lambda c: c.append(9), "dict": lambda c: c.__setitem__("z", 9), "set": lambda c: c.add(9), "bytearray": lambda c: c.extend(b"z"),
              "object": lambda c: setattr(c, "x", 9), "nested": lambda c: c[0].append(9)}
    n = 4
    for ck in makers:
        for pos in range(n):
            for keyform in ("int", "negative-int", "slice", "index-list", "mask", "index-vector"):
                for second in range(n):
                    if second == pos:
                        continue
                    base = [makers[ck]() for _ in range(n)]
                    pl = list(base)
                    case = {"cell_kind": ck, "position": pos, "key_form": keyform, "second_write_at": second,
                            "steps": ["v[k] = cell", "cell edited in place by the caller", "v[k2] = other", "compare with a Python list driven alike"]}
                    agg.evals += 1; agg.transitions += 3; agg.states += 1; agg.nontrivial += 1; agg.compared += 1
                    try:
                        v = Vector(list(base))
                        cell, other = makers[ck](), makers[ck]()
                        if keyform == "int":
                            v[pos] = cell
                        elif keyform == "negative-int":
                            v[pos - n] = cell
                        elif keyform == "slice":
                            v[pos:pos + 1] = [cell]
                        elif keyform == "index-list":
                            v[[pos]] = [cell]
                        elif keyform == "index-vector":
                            v[Vector([pos])] = [cell]
                        else:
                            v[[i == pos for i in range(n)]] = [cell]
                        pl[pos] = cell
                        mutate[ck](cell)
                        v[second:second + 1] = [other]
                        pl[second] = other
                        got = list(v._underlying)
                    except Exception as e:
                        agg.skipped["cell-assignment-refused-" + type(e).__name__] += 1
                        continue
                    if [repr(x) for x in got] != [repr(x) for x in pl]:
                        agg.violation(V("setitem.cells", "contents-differ-from-list-assignment", case, [repr(x) for x in pl], [repr(x) for x in got]))
                    else:
                        agg.outcomes["assigned"] += 1
    return agg


# ------------------------------------------------------------------------------------------ rename_columns
def unit_rename(unit):
    from serif import Table, Vector
    _, width = unit
    agg = Agg()
    for names in itertools.product(["a", "b"], repeat=width):
        for L in (0, 1, 2, 3):
            for olds in itertools.product(["a", "b", "c", "zz"], repeat=L):
                for news in itertools.product(["x", "a", "b"], repeat=L):
                    sim = list(names)
                    fail = False
                    for o, nw in zip(olds, news):
                        if o in sim:
                            sim[sim.index(o)] = nw
                        else:
                            fail = True
                            break
                    agg.states += 1; agg.evals += 1; agg.transitions += 1; agg.compared += 1
                    if fail:
                        agg.nontrivial += 1
                    case = {"names": list(names), "old": list(olds), "new": list(news)}
                    t = Table([Vector([i], name=nm) for i, nm in enumerate(names)])
                    try:
                        t.rename_columns(list(olds), list(news))
                        raised = None
                    except Exception as e:
                        raised = e
                    got = t.column_names()
                    py = (f"from serif import Table, Vector\nt = Table([Vector([i], name=n) for i, n in enumerate({list(names)!r})])\n"
                          f"try: t.rename_columns({list(olds)!r}, {list(news)!r})\nexcept Exception as e: print('raised', type(e).__name__)\nprint(t.column_names())")
                    if fail:
                        if raised is None:
                            agg.violation(V("rename_columns", "unknown-name-accepted", case, "error", got, py))
                        elif got != list(names):
                            agg.violation(V("rename_columns", "failed-rename-changed-names", case, list(names), got, py))
                        else:
                            agg.outcomes["rename-rejected-atomically"] += 1
                    else:
                        if raised is not None:
                            agg.violation(V("rename_columns", "valid-rename-refused-" + type(raised).__name__, case, sim, got, py))
                        elif got != sim:
                            agg.violation(V("rename_columns", "wrong-names-after-rename", case, sim, got, py))
                        else:
                            agg.outcomes["rename-ok"] += 1
                    # cells never move
                    if [list(c._underlying) for c in t._underlying] != [[i] for i in range(width)]:
                        agg.violation(V("rename_columns", "cells-changed", case, None, None, py))
            # unequal list lengths
            for a, b in ((["a"], []), ([], ["x"]), (["a", "b"], ["x"])):
                t = Table([Vector([i], name=nm) for i, nm in enumerate(names)])
                agg.evals += 1; agg.compared += 1
                try:
                    t.rename_columns(a, b)
                    agg.violation(V("rename_columns", "unequal-lengths-accepted", {"names": list(names), "old": a, "new": b}))
                except Exception:
                    if t.column_names() != list(names):
                        agg.violation(V("rename_columns", "failed-rename-changed-names", {"names": list(names), "old": a, "new": b}))
                    else:
                        agg.outcomes["rename-rejected-atomically"] += 1
    agg.sample({"rename_columns width": width})
    return agg


def run_unit(unit):
    return {"vec": unit_vector, "tab": unit_table, "ren": unit_rename, "own": unit_own_values, "cells": unit_cells}[unit[0]](unit)


def check(ctx):
    N = ctx.pick(3, 4)
    units = [("vec", k, nl, n) for k in BASE for nl in (False, True) for n in range(0, N + 1)]
    units += [("vec", k, nl, n, "long") for k in BASE if k != "object" for nl in (False, True) for n in (17, 33, 65)]
    units += [("tab",), ("own",), ("cells",)] + [("ren", w) for w in (1, 2, 3)]
    agg = core.merge_all(core.pmap(run_unit, units))
    agg.notes["bound"] = f"vectors len<={N}; tables 2 rows x <=3 cols; rename lists len<=3; values that are the table's own live columns: every ordered choice of <=3 targets x sources of a 3x3 table x 5 row keys"
    agg.notes["exhaustive"] = True
    return agg


def coverage_goals(ctx, agg):
    return [k for k in ("assigned", "promoted", "rejected-atomically", "table-ok", "table-rejected", "rename-ok", "rename-rejected-atomically")
            if agg.outcomes.get(k, 0) < 20]


def replay(rec):
    return None
