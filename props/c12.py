"""C12 — group-by aggregation: one row per key in first-appearance order, correct values (Engine E, hash seeds)."""
from __future__ import annotations

import hashlib
import itertools

from mc import core, groupspace as gs
from mc.core import Agg, V
from mc.models import obs

RULE = ("every table with <=N rows, 1..3 key columns over a 3-symbol alphabet (strings / ints / hash-colliding ints; None is a key), "
        "value column over {1,2,None} (+ derived float column and two different unnamed external vectors), keys by name / own column / "
        "external vector, 12 argument menus (each built-in alone, all six, same column twice, two columns, two unnamed vectors, custom apply); "
        "re-run under every PYTHONHASHSEED of the tier; plus aggregate-write-aggregate histories and whole-column reductions; "
        "non-trivial = >=2 groups with at least one group of >=2 rows")
ASSUMPTIONS = ["max/min/mean/stdev of a group without non-None values are None, sum/count are 0 (statement)",
               "whole-column reductions are only judged for vectors with >=1 non-None value (statement)"]

METHOD = "aggregate"
VARIANT = [0]      # provenance round-robin counter (per worker process, reset per unit)


def nontrivial(keys):
    g = gs.groups_of(keys)
    return len(g) >= 2 and any(len(r) >= 2 for _, r in g)


def _arg_identities(over, kw):
    """the caller's argument containers, element by element (identity of every name / vector they hold)"""
    out = []
    for a in [over] + [kw[k] for k in sorted(kw) if k != "apply"]:
        out.append((type(a).__name__, tuple(id(x) for x in a)) if isinstance(a, (list, tuple)) else id(a))
    return out


def check_aggregate(agg, h, kind, nkeys, form, keys, vals, menu_name):
    menu = gs.MENUS[menu_name]
    case = gs.describe(kind, nkeys, form, keys, vals, menu_name, METHOD)
    site = f"aggregate.{form}.{menu_name}"
    py = gs.py_repro(keys, vals, nkeys, form, menu_name, METHOD)
    calls = []
    try:
        VARIANT[0] += 1
        case["variant"] = VARIANT[0]
        t, over = gs.build(keys, vals, nkeys, form, variant=VARIANT[0])
        kw = gs.build_kwargs(t, vals, menu, form, calls)
    except Exception as e:
        agg.violation(V("aggregate.build-inputs", "raises-" + type(e).__name__, case))
        return
    before = obs(t)
    groups, outs = gs.ref_aggregate(keys, vals, menu)
    agg.evals += 1
    agg.transitions += 1
    arg_ids = _arg_identities(over, kw)
    try:
        res = t.aggregate(over=over, **kw)
    except Exception as e:
        agg.violation(V(site, "raises-" + type(e).__name__, case, None, repr(e)[:100], py))
        return
    if _arg_identities(over, kw) != arg_ids:
        agg.violation(V(site, "call-changed-a-list-argument-of-the-caller", case, None, None, py))
        return
    agg.compared += 1
    cols = [list(c._underlying) for c in res._underlying]
    h.update(repr([[canon for canon in map(repr, c)] for c in cols]).encode())
    if len(cols) != nkeys + len(outs):
        agg.violation(V(site, "wrong-number-of-columns", case, nkeys + len(outs), len(cols), py))
        return
    # one row per distinct key, first-appearance order, key columns first
    want_keys = [[g[0][j] for g in groups] for j in range(nkeys)]
    got_keys = cols[:nkeys]
    if [list(map(repr, c)) for c in got_keys] != [list(map(repr, c)) for c in want_keys]:
        gk = list(zip(*got_keys)) if got_keys else []
        wk = [g[0] for g in groups]
        if sorted(map(repr, gk)) == sorted(map(repr, wk)):
            sym = "groups-not-in-first-appearance-order"
        elif len(gk) != len(wk):
            sym = "wrong-number-of-groups"
        else:
            sym = "wrong-group-keys"
        agg.violation(V(site, sym, case, wk, gk, py))
        agg.outcomes["mismatch"] += 1
        return
    ok = True
    for (fn, src, want), got in zip(outs, cols[nkeys:]):
        if len(got) != len(want) or not all(gs.value_close(a, b) for a, b in zip(got, want)):
            agg.violation(V(f"aggregate.{form}.{fn}", f"wrong-{fn}-values" + ("-" + menu_name if menu_name in ("twice", "two-unnamed", "sum-mean-unnamed", "two-cols", "two-same-name", "lshift-built") else ""),
                            case, {"fn": fn, "source": src, "values": want}, got, py))
            ok = False
    if "apply" in menu:
        want_calls = [[gs.source_values("v", vals)[i] for i in rows] for _, rows in groups]
        if sorted(map(repr, calls)) != sorted(map(repr, want_calls)):
            agg.violation(V(f"aggregate.{form}.apply", "apply-calls-differ", case, want_calls, calls, py))
            ok = False
    if obs(t) != before:
        agg.violation(V(site, "input-modified", case, None, None, py))
    agg.outcomes["agree" if ok else "mismatch"] += 1


def run_unit(unit):
    if unit[0] == "hist":
        return run_hist(unit)
    if unit[0] == "reduce":
        return run_reduce(unit)
    if unit[0] == "gextra":
        from mc import groupextra
        return groupextra.run_extra_unit(unit, METHOD)
    kind, nkeys, n, first, level = unit
    agg = Agg()
    h = hashlib.sha256()
    last = None
    VARIANT[0] = 0
    for keys, vals in gs.cases(unit):
        agg.states += 1
        if nontrivial(keys):
            agg.nontrivial += 1
        for form in gs.FORMS:
            for menu_name in gs.menus_for(nkeys, n, form, level):
                check_aggregate(agg, h, kind, nkeys, form, keys, vals, menu_name)
        last = (keys, vals)
    agg.digests[repr(unit)] = h.hexdigest()
    if last:
        agg.sample(gs.describe(kind, nkeys, "name", last[0], last[1], "all6", METHOD))
    return agg


# ---- histories: aggregate, write a key or value cell in place (3 write paths), aggregate again
def hist_iter(kind, maxn=2, only_path=None):
    for n in range(1, maxn + 1):
        for keys in gs.key_lists(kind, 1, n):
            for vals in itertools.product(gs.VAL_ALPHA, repeat=n):
                for col, alpha in (("k0", gs.KEY_ALPHA[kind]), ("v", gs.VAL_ALPHA)):
                    for idx in range(n):
                        old = keys[idx][0] if col == "k0" else vals[idx]
                        for new in alpha:
                            if new == old or new is None:
                                continue
                            for path in ("cell", "view", "replace", "cell2", "view2"):
                                if only_path is None or path == only_path:
                                    yield list(keys), list(vals), col, idx, new, path


def mutate(t, col, idx, new, path):
    from serif import Vector
    if path in ("cell2", "view2"):
        # two in-place writes in a row (an intermediate value first): storage is swapped twice
        inter = "tmp" if isinstance(new, str) else (new + 7 if isinstance(new, (int, float)) and not isinstance(new, bool) else new)
        mutate(t, col, idx, inter, path[:-1])
        mutate(t, col, idx, new, path[:-1])
        return
    if path == "cell":
        t[idx, col] = new
    elif path == "view":
        t[col][idx] = new
    else:
        vals = list(t[col]._underlying)
        vals[idx] = new
        setattr(t, col, Vector(vals))


def hist_one(agg, kind, form, method, keys, vals, col, idx, new, path):
    case = gs.describe(kind, 1, form, keys, vals, "all6", method)
    case["hist"] = [col, idx, new, path]
    case["history"] = [method, f"write {col}[{idx}]={new!r} via {path}", method + " again"]
    menu = gs.MENUS["all6"]
    keys2 = [tuple(k) for k in keys]
    vals2 = list(vals)
    if col == "k0":
        keys2[idx] = (new,)
    else:
        vals2[idx] = new
    agg.states += 1
    agg.nontrivial += 1
    agg.evals += 1
    try:
        t, over = gs.build(keys, vals, 1, form)
        kw = gs.build_kwargs(t, vals, menu, form, [])
        r1 = getattr(t, method)(over=over, **kw)
        mutate(t, col, idx, new, path)
        if form == "column":
            over = t["k0"]
            kw = gs.build_kwargs(t, vals2, menu, form, [])
        r2 = getattr(t, method)(over=over, **kw)
        agg.transitions += 3
    except Exception as e:
        agg.violation(V(f"{method}.after-write.{path}", "raises-" + type(e).__name__, case, None, repr(e)[:100]))
        return
    for which, res, k, v in (("first", r1, keys, vals), ("second", r2, keys2, vals2)):
        groups, outs = gs.ref_aggregate(k, v, menu)
        cols = [list(c._underlying) for c in res._underlying]
        agg.compared += 1
        if method == "aggregate":
            want = [[g[0][0] for g in groups]] + [o[2] for o in outs]
        else:
            gmap = {}
            for gi, (gk, rows) in enumerate(groups):
                for r in rows:
                    gmap[r] = gi
            want = [[kk[0] for kk in k]] + [[o[2][gmap[i]] for i in range(len(k))] for o in outs]
        good = len(cols) == len(want) and all(len(a) == len(b) and all(gs.value_close(x, y) for x, y in zip(a, b)) for a, b in zip(cols, want))
        if not good:
            if which == "second":
                g1, o1 = gs.ref_aggregate(keys, vals, menu)
                agg.violation(V(f"{method}.after-write.{path}", "wrong-result-after-in-place-write", case, want, cols))
            else:
                agg.violation(V(f"{method}.after-write.{path}", "earlier-result-wrong-or-changed", case, want, cols))
            agg.outcomes["hist-mismatch"] += 1
            return
    agg.outcomes["hist-agree"] += 1


def run_hist(unit):
    _, kind, form, method, maxn = unit[:5]
    policy = unit[5] if len(unit) > 5 else "fresh"
    only_path = unit[6] if len(unit) > 6 else None
    agg = Agg()
    if policy != "fresh":
        core.reset_globals(policy)      # CPython-like identity recycling for this pass
    for keys, vals, col, idx, new, path in hist_iter(kind, maxn, only_path):
        hist_one(agg, kind, form, method, keys, vals, col, idx, new, path)
    agg.notes["hist_allocator_policies"] = [policy]
    agg.sample({"history": [method, "in-place write to a key/value cell via cell|view|replace", method + " again"], "kind": kind})
    return agg


# ---- whole-column reductions agree with a single-group aggregate
def run_reduce(unit):
    from serif import Vector, Table
    _, alpha_name, maxn = unit
    alpha = {"int": [0, 2, None], "float": [0.0, 1.5, None], "neg": [-1, 3, None],
             # large magnitude, small spread: a numerically careless one-pass variance collapses here
             "big": [10 ** 9, 10 ** 9 + 1, 10 ** 9 + 2, None], "bigf": [1e8 + 0.25, 1e8 + 1.25, 1e8 + 2.25, None]}[alpha_name]
    agg = Agg()
    for n in range(1, maxn + 1):
        for vals in itertools.product(alpha, repeat=n):
            vals = list(vals)
            if all(v is None for v in vals):
                agg.skipped["all-None-vector"] += 1
                continue
            agg.states += 1
            if None in vals:
                agg.nontrivial += 1
            t = Table({"g": ["x"] * n, "v": vals})
            try:
                res = t.aggregate(over="g", sum_over="v", mean_over="v", min_over="v", max_over="v", count_over="v", stdev_over="v")
                single = [c._underlying[0] for c in res._underlying[1:]]
            except Exception as e:
                agg.violation(V("aggregate.single-group", "raises-" + type(e).__name__, {"values": vals}))
                continue
            agg.transitions += 1
            # the single group may also be asked for with an EMPTY key list (the whole table is the group of the key tuple ()): one row,
            # the same values, the custom function called once with every value
            seen_ = []
            try:
                r0 = t.aggregate(over=[], sum_over="v", mean_over="v", min_over="v", max_over="v", count_over="v", stdev_over="v",
                                 apply={"all": ("v", lambda xs: (seen_.append(list(xs)), len(list(xs)))[1])})
                single0 = [list(c._underlying) for c in r0._underlying]
            except Exception as e:
                single0 = e
            agg.evals += 1; agg.compared += 1
            if isinstance(single0, Exception):
                agg.skipped["empty-key-list-refused-" + type(single0).__name__] += 1        # refusing an empty key list is a choice; answering wrongly is not
            elif any(len(c) != 1 for c in single0) or not all(gs.value_close(a[0], b) for a, b in zip(single0[:6], single)) or seen_ != [vals]:
                agg.violation(V("aggregate.no-keys", "whole-table-group-differs-from-single-group-aggregate", {"values": vals}, single + [[vals]], single0 + [seen_]))
            else:
                agg.outcomes["reduce-agree"] += 1
            for i, fn in enumerate(gs.FNS):
                if fn == "count":
                    continue
                agg.evals += 1
                agg.transitions += 1
                agg.compared += 1
                case = {"values": vals, "reduction": fn}
                py = f"from serif import Vector\nprint(Vector({vals!r}).{fn}())  # expected {gs.ref_fn(fn, vals)!r}"
                try:
                    got = getattr(Vector(vals), fn)()
                except Exception as e:
                    agg.violation(V(f"vector.{fn}", "raises-" + type(e).__name__ + ("-with-None" if None in vals else ""), case, single[i], repr(e)[:80], py))
                    continue
                if not gs.value_close(got, single[i]) or not gs.value_close(got, gs.ref_fn(fn, vals)):
                    agg.violation(V(f"vector.{fn}", "differs-from-single-group-aggregate", case, single[i], got, py))
                else:
                    agg.outcomes["reduce-agree"] += 1
    agg.sample({"reductions": alpha_name, "max_len": maxn})
    return agg


def check(ctx):
    from mc import hashseeds
    units = gs.plan_units(ctx.thorough)
    units += [("hist", k, f, METHOD, ctx.pick(2, 3)) for k in ("str", "intc") for f in ("name", "column")]
    units += [("hist", "str", f, METHOD, 2, "recycle") for f in (("name", "column") if ctx.thorough else ("name",))]
    if not ctx.thorough:
        units += [("hist", "str", "name", METHOD, 3, "fresh", p) for p in ("cell", "view", "replace", "cell2", "view2")]
    units += [("reduce", a, ctx.pick(4, 5)) for a in ("int", "float", "neg")] + [("reduce", a, 4) for a in ("big", "bigf")]
    units += [("gextra", f) for f in ("grid", "floats", "patterns", "applies", "tuplekeys", "calls", "stateful", "numerics")]
    agg = hashseeds.run(ctx, "props.c12", units)
    agg.notes["bound"] = "rows<=4 (1 key) / <=3 (2 keys) quick; <=5 / <=4 / <=2 (3 keys) thorough"
    agg.notes["exhaustive"] = True
    return agg


def coverage_goals(ctx, agg):
    return [k for k in ("agree", "hist-agree", "reduce-agree") if agg.outcomes.get(k, 0) < 100]


def replay(rec):
    case = rec.get("case") or {}
    agg = Agg()
    _fam = {"grid of composite keys": "grid", "float accumulation": "floats", "every two-group arrangement": "patterns",
            "several custom functions on one column": "applies", "one-shot iterable arguments": "applies",
            "tuple-valued keys": "tuplekeys", "two calls on the same table": "calls",
            "custom functions that raise or count their calls": "stateful", "Fraction / Decimal / complex values": "numerics"}
    if case.get("family") in _fam:
        from mc import groupextra
        fam = _fam[case["family"]]
        return set(groupextra.run_extra_unit(("gextra", fam), METHOD).viol)
    if "hist" in case:
        col, idx, new, path = case["hist"]
        hist_one(agg, case["kind"], case["form"], case["method"], [tuple(k) for k in case["keys"]], case["values"], col, idx, new, path)
        return set(agg.viol)
    if "menu" in case and case.get("method") == METHOD:
        VARIANT[0] = int(case.get("variant", 1)) - 1
        check_aggregate(agg, hashlib.sha256(), case["kind"], case["nkeys"], case["form"], [tuple(k) for k in case["keys"]], case["values"], case["menu"])
        return set(agg.viol)
    return None
