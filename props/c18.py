"""C18 — names propagate by fixed rules: math drops them, structure keeps them (Engine E over compositions)."""
from __future__ import annotations

import itertools
import operator

from mc import core
from mc.core import Agg, V
from mc.models import model_sanitize, model_uniquify

RULE = ("operands: vectors named over an 8-name alphabet (None, '', plain, upper-case, with space, reserved word, leading digit, "
        "generated-looking) and tables with every column-name list of width<=W over it (repeats included); every public operation the "
        "statement mentions (vector: copy, slices, mask, index list, sort, in-place write, promoting write, binary math/comparison with "
        "every second name; table: row slice/mask, column selection, sort, Table([...]), >> vector/dict/table, table-with-scalar, "
        "table-with-table with every right name list, three joins, aggregate/window with five argument shapes) applied to every operand "
        "and then again to every distinct result (compositions of depth<=D); each step checked against the rule table. "
        "non-trivial = operand with a repeated, unsanitary, falsy or missing name")
ASSUMPTIONS = ["operations the statement does not mention (<<, .T, unary ops, dropna, fillna, cast, vector-with-scalar math) are not judged",
               "names of empty (0x0) join results are not judged"]

NAMES = [None, "x", "y", "", "X", "x y", "sum", "1a", "g2", "g"]


def fresh(s):
    """an equal but distinct str object (names must be compared by value, never by identity)"""
    return (s + "#")[:-1] if isinstance(s, str) else s


def vnames(t):
    return [c._name for c in t._underlying]


def agg_expected(key_names, requests, apply_names):
    """requests: [(fn, column_name)] in output order."""
    raw = [(k or "key") for k in key_names]
    for fn, cn in requests:
        s = model_sanitize(cn or "col") or "col"
        raw.append(f"{s}_{fn}")
    raw += list(apply_names)
    return model_uniquify(raw)


FN_ORDER = ["sum", "mean", "min", "max", "count", "stdev"]


def agg_shapes(t):
    """argument shapes for aggregate/window on a table with >=2 columns: (label, over, kwargs, expected names)"""
    cols = t._underlying
    c0, c1 = cols[0], cols[1]
    n0, n1 = c0._name, c1._name
    shapes = []
    shapes.append(("one", [c0], {"sum_over": c1}, agg_expected([n0], [("sum", n1)], [])))
    shapes.append(("key-twice", [c0, c0], {"sum_over": [c1, c1], "count_over": c1},
                   agg_expected([n0, n0], [("sum", n1), ("sum", n1), ("count", n1)], [])))
    s1 = model_sanitize(n1 or "col") or "col"
    shapes.append(("apply-collides", [c0], {"sum_over": [c1, c1], "apply": {f"{s1}_sum2": (c1, len)}},
                   agg_expected([n0], [("sum", n1), ("sum", n1)], [f"{s1}_sum2"])))
    shapes.append(("all", [c0], {f"{f}_over": c1 for f in FN_ORDER}, agg_expected([n0], [(f, n1) for f in FN_ORDER], [])))
    shapes.append(("keys-g-g2-g", [c0, c1, c0], {"max_over": c0}, agg_expected([n0, n1, n0], [("max", n0)], [])))
    # a KEY whose stored name is the very name an output asks for: keys are named first, the output takes the numeric suffix
    from serif import Vector
    klike = Vector(list(c0._underlying), name=f"{s1}_sum")
    shapes.append(("key-named-like-an-output", [klike], {"sum_over": c1, "count_over": c1}, agg_expected([f"{s1}_sum"], [("sum", n1), ("count", n1)], [])))
    kname = n0 or "key"
    shapes.append(("apply-named-like-the-key", [c0], {"sum_over": c1, "apply": {kname: (c1, len)}}, agg_expected([n0], [("sum", n1)], [kname])))
    return shapes


def step_checks(agg, obj, depth, out):
    """Apply every judged operation to obj; verify names; collect results into out."""
    from serif import Vector, Table
    kind, x = obj

    def ok(site, case, want, got, res=None):
        agg.evals += 1; agg.transitions += 1; agg.compared += 1
        agg.sites[site] += 1
        if got != want:
            agg.violation(V(site, _sym(want, got), case, want, got))
            agg.outcomes["mismatch"] += 1
        else:
            agg.outcomes["name-rule-holds"] += 1
            if res is not None:
                out.append(res)

    def attempt(site, case, thunk):
        try:
            return thunk()
        except Exception as e:
            agg.skipped[f"operation-raises"] += 1
            return None

    if kind == "V":
        nm = x._name
        vals = list(x._underlying)
        case = {"vector_name": nm, "values": vals, "depth": depth}
        for lab, th in (("copy", lambda: x.copy()), ("slice", lambda: x[0:2]), ("slice-rev", lambda: x[::-1]), ("slice-empty", lambda: x[1:1]),
                        ("mask", lambda: x[[True] + [False] * (len(vals) - 1)]), ("index-list", lambda: x[[0, len(vals) - 1]]),
                        ("sort_by", lambda: x.sort_by()), ("sort_by-desc", lambda: x.sort_by(reverse=True))):
            r = attempt(f"vector.{lab}", case, th)
            if r is not None:
                ok(f"vector.{lab}", dict(case, op=lab), nm, r._name, ("V", r))
        # in-place writes keep the name
        for lab, th in (("write", lambda v: v.__setitem__(0, vals[-1])), ("write-slice", lambda v: v.__setitem__(slice(0, 1), [vals[-1]])),
                        ("write-promote", lambda v: v.__setitem__(0, 0.5)), ("write-none", lambda v: v.__setitem__(0, None))):
            v = Vector(list(vals), name=nm)
            try:
                th(v)
            except Exception:
                agg.skipped["operation-raises"] += 1
                continue
            ok(f"vector.{lab}", dict(case, op=lab), nm, v._name, ("V", v) if lab == "write-promote" else None)
        # binary math / comparison between vectors: unnamed
        for other in NAMES:
            # the right operand over several element kinds: same kind, wider kind, with None, and kinds for which the elementwise
            # operation is not defined (str against int): whatever vector comes back, it is unnamed
            for wk, wvals in (("same", list(vals)), ("float", [0.5] * len(vals)), ("str", ["a"] * len(vals)), ("with-none", [None] + list(vals[1:])),
                              ("object", [1, "a", None][:len(vals)] + [2] * max(0, len(vals) - 3))):
                if wk != "same" and other not in (None, "x", "y"):
                    continue
                w = Vector(list(wvals), name=fresh(other))
                for opn, op in (("add", operator.add), ("mul", operator.mul), ("sub", operator.sub), ("eq", operator.eq), ("lt", operator.lt), ("truediv", operator.truediv)):
                    for order in (("xw",) if wk == "same" else ("xw", "wx")):
                        r = attempt(f"vector.{opn}", case, (lambda: op(x, w)) if order == "xw" else (lambda: op(w, x)))
                        if r is not None and hasattr(r, "_name"):
                            ok(f"vector.binary.{opn}" + ("" if wk == "same" else f".{wk}"), dict(case, op=opn, right_name=other, right_kind=wk, order=order), None, r._name)
        # ... and for the element kinds that have arithmetic of their own (dates with day counts and timedeltas, text, complex): the
        # left operand carries this seed's name, the result is unnamed whatever path computes it
        from datetime import date as _d, datetime as _dt, timedelta as _td
        n_ = len(vals)
        pairs = [("date+int-days", [_d(2020, 1, 1 + i) for i in range(n_)], [i + 1 for i in range(n_)], operator.add),
                 ("date+timedelta", [_d(2020, 1, 1 + i) for i in range(n_)], [_td(days=i) for i in range(n_)], operator.add),
                 ("date-timedelta", [_d(2020, 1, 9 + i) for i in range(n_)], [_td(days=i) for i in range(n_)], operator.sub),
                 ("date-date", [_d(2020, 1, 9 + i) for i in range(n_)], [_d(2020, 1, 1 + i) for i in range(n_)], operator.sub),
                 ("datetime+timedelta", [_dt(2020, 1, 1 + i, 5) for i in range(n_)], [_td(hours=i) for i in range(n_)], operator.add),
                 ("date?+int-days", [None] + [_d(2020, 1, 1 + i) for i in range(1, n_)], [i + 1 for i in range(n_)], operator.add),
                 ("str+str", ["a"] * n_, ["b"] * n_, operator.add), ("str*int", ["a"] * n_, [2] * n_, operator.mul), ("str%str", ["<%s>"] * n_, ["b"] * n_, operator.mod),
                 ("complex+int", [1j] * n_, [2] * n_, operator.add), ("bytes+bytes", [b"a"] * n_, [b"b"] * n_, operator.add)]
        for plab, lv, rv, op in pairs:
            for other in (None, "x", nm):
                for rform in ("vector", "list"):
                    left = Vector(list(lv), name=nm)
                    right = Vector(list(rv), name=fresh(other)) if rform == "vector" else list(rv)
                    r = attempt(f"vector.{plab}", case, lambda: op(left, right))
                    if r is not None and hasattr(r, "_name"):
                        ok(f"vector.binary.{plab}", dict(case, op=plab, right_name=other, right=rform), None, r._name)
        # structure from vectors
        for other in NAMES:
            w = Vector(list(vals), name=other)
            r = attempt("Table([v,w])", case, lambda: Table([x, w]))
            if r is not None:
                ok("table.from-vectors", dict(case, second=other), [nm, other], vnames(r), ("T", r) if depth == 0 and other in (None, "x", "y", "") else None)
            r = attempt("v>>w", case, lambda: x >> w)
            if r is not None and type(r).__name__ == "Table":
                ok("vector.rshift.vector", dict(case, second=other), [nm, other], vnames(r))
        return
    # ------------------------------------------------------------------ tables
    t = x
    N = vnames(t)
    nrows = len(t)
    case = {"column_names": N, "rows": nrows, "depth": depth}
    if nrows == 0 or not N:
        return
    for lab, th in (("row-slice", lambda: t[0:2]), ("row-slice-rev", lambda: t[::-1]), ("row-mask", lambda: t[[True] + [False] * (nrows - 1)]),
                    ("row-mask-none", lambda: t[[False] * nrows]), ("sort_by", lambda: t.sort_by(t._underlying[0])),
                    ("sort_by-desc", lambda: t.sort_by(t._underlying[-1], reverse=True))):
        r = attempt(f"table.{lab}", case, th)
        if r is not None and type(r).__name__ == "Table":
            ok(f"table.{lab}", dict(case, op=lab), N, vnames(r), ("T", r) if lab in ("row-slice", "sort_by") else None)
    # 2-D block selections: the names of exactly the selected columns, in the selected order
    W_ = len(N)
    for lab, rs, cs in (("block-tail-columns", slice(0, 2), slice(1, None)), ("block-last-column", slice(None), slice(W_ - 1, None)), ("block-reversed-columns", slice(None), slice(None, None, -1)),
                        ("block-every-2nd-column", slice(0, 1), slice(None, None, 2)), ("block-first-column", slice(None, None, -1), slice(0, 1)), ("block-middle", slice(1, None), slice(1, 2))):
        r = attempt(f"table.{lab}", case, lambda: t[rs, cs])
        if r is not None and type(r).__name__ == "Table":
            ok(f"table.{lab}", dict(case, op=lab), N[cs], vnames(r))
    # column selection by stored names (first occurrence semantics): names in request order
    strs = [n for n in N if isinstance(n, str)]
    for L in (1, 2):
        for sel in itertools.permutations(sorted(set(strs)), L):
            r = attempt("table.select", case, lambda: t[sel] if L > 1 else t[sel[0],])
            if r is not None and type(r).__name__ == "Table":
                ok("table.select", dict(case, select=list(sel)), list(sel), vnames(r))
    # stacking
    for other in NAMES:
        w = Vector(list(range(nrows)), name=other)
        r = attempt("t>>v", case, lambda: t >> w)
        if r is not None:
            ok("table.rshift.vector", dict(case, appended=other), N + [other], vnames(r), ("T", r) if depth == 0 and other == "x" and len(N) < 3 else None)
        if isinstance(other, str):
            r = attempt("t>>dict", case, lambda: t >> {other: list(range(nrows))})
            if r is not None:
                ok("table.rshift.dict", dict(case, appended=other), N + [other], vnames(r))
            r = attempt("t>>dict-vector", case, lambda: t >> {other: Vector(list(range(nrows)), name="zz")})
            if r is not None:
                ok("table.rshift.dict-vector", dict(case, appended=other), N + [other], vnames(r))
    r = attempt("t>>t", case, lambda: t >> t)
    if r is not None:
        ok("table.rshift.table", case, N + N, vnames(r))
    # in-place writes into a table keep every stored name: cell, row, column, and region assignment FROM A TABLE WITH OTHER NAMES
    # (all rows or some rows; same dtypes), also when the region is the whole table
    def fresh_copy():
        return Table([Vector(list(c._underlying), name=c._name) for c in t._underlying])
    W = len(N)
    src_names = ["zz", "yy", "xx", "ww"][:W]
    def src(nr, ncols=W):
        return Table([Vector(list(t._underlying[j]._underlying[:nr]), name=src_names[j]) for j in range(ncols)])
    writes = [("cell", lambda u: u.__setitem__((0, 0), u._underlying[0]._underlying[0])),
              ("row", lambda u: u.__setitem__(0, [c._underlying[0] for c in u._underlying])),
              ("column-list", lambda u: u.__setitem__((slice(None), 0), list(u._underlying[0]._underlying))),
              ("column-vector", lambda u: u.__setitem__((slice(None), 0), Vector(list(u._underlying[0]._underlying), name="zz"))),
              ("region-all-rows-all-columns", lambda u: u.__setitem__((slice(None), slice(None)), src(nrows))),
              ("region-all-rows-first-column", lambda u: u.__setitem__((slice(None), slice(0, 1)), src(nrows, 1))),
              ("region-explicit-all-rows", lambda u: u.__setitem__((slice(0, nrows), slice(0, W)), src(nrows))),
              ("region-some-rows", lambda u: u.__setitem__((slice(0, 1), slice(0, W)), src(1))),
              ("setattr-named-vector", lambda u: setattr(u, next(iter(u._current_column_map())), Vector(list(u._underlying[u._current_column_map()[next(iter(u._current_column_map()))]]._underlying), name="zz")))]
    for lab, wf in writes:
        u = fresh_copy()
        try:
            wf(u)
        except Exception:
            agg.skipped["operation-raises"] += 1
            continue
        ok(f"table.write.{lab}", dict(case, op=lab, source_names=src_names), N, vnames(u))
    # arithmetic
    for opn, op in (("add", operator.add), ("mul", operator.mul), ("truediv", operator.truediv), ("sub", operator.sub), ("floordiv", operator.floordiv),
                    ("mod", operator.mod), ("pow", operator.pow)):
        r = attempt("t+scalar", case, lambda: op(t, 2))
        if r is not None and type(r).__name__ == "Table":
            ok(f"table.{opn}.scalar", dict(case, op=opn), N, vnames(r))
        # table-with-scalar arithmetic with the scalar written first (2 - t): the same columns, the same names
        r = attempt("scalar+t", case, lambda: op(2, t))
        if r is not None:
            ok(f"table.{opn}.scalar-first", dict(case, op=opn, form="scalar op table"), N, vnames(r) if type(r).__name__ == "Table" else "not-a-table")
    for RN in itertools.product(NAMES, repeat=len(N)):
        t2 = Table([Vector(list(range(1, nrows + 1)), name=fresh(rn)) for rn in RN])
        want = [ln if (rn is None or rn == ln) else None for ln, rn in zip(N, RN)]
        for opn, op in (("add", operator.add), ("sub", operator.sub)):
            r = attempt("t+t", case, lambda: op(t, t2))
            if r is not None and type(r).__name__ == "Table":
                ok(f"table.{opn}.table", dict(case, right_names=list(RN), op=opn), want, vnames(r))
    # table-with-table arithmetic after the left names were (re)written through rename_column with run-time built strings
    if all(isinstance(n_, str) for n_ in N) and len(set(N)) == len(N):
        try:
            tl = Table([Vector(list(c._underlying), name=f"tmp{i}") for i, c in enumerate(t._underlying)])
            for i, n_ in enumerate(N):
                tl.rename_column(f"tmp{i}", fresh(n_))
            tr = Table([Vector(list(range(1, nrows + 1)), name=fresh(n_)) for n_ in N])
            r = tl + tr
            ok("table.add.table.after-rename", dict(case, history=["rename_column with run-time strings", "t + t2 (equal names)"]), N, vnames(r))
        except Exception:
            agg.skipped["operation-raises"] += 1
    # joins keep left names then right names
    for RN in ([("k", "p")] + [tuple(N)] + [(None, "x")] + [("", "sum")]):
        R = Table([Vector(list(t._underlying[0]._underlying), name=RN[0])] + [Vector(list(range(nrows)), name=rn) for rn in RN[1:]])
        for meth in ("inner_join", "join", "full_join"):
            r = attempt(meth, case, lambda: getattr(t, meth)(R, left_on=t._underlying[0], right_on=R._underlying[0], expect="many_to_many"))
            if r is not None and len(r._underlying):
                ok(f"table.{meth}", dict(case, right_names=list(RN)), N + list(RN), vnames(r))
    # aggregate / window naming
    if len(N) >= 2:
        for lab, over, kw, want in agg_shapes(t):
            for meth in ("aggregate", "window"):
                r = attempt(meth, case, lambda: getattr(t, meth)(over=over, **kw))
                if r is None:
                    continue
                ok(f"table.{meth}.{lab}", dict(case, shape=lab), want, vnames(r))
    # histories: aggregate / window, rename a value column in place, aggregate / window again (names follow the CURRENT stored name)
    if len(N) >= 2:
        for how in ("rename_column", "rename_columns", "view"):
            for meth in ("aggregate", "window"):
                try:
                    t2 = Table([Vector(list(c._underlying), name=c._name) for c in t._underlying])
                    getattr(t2, meth)(over=t2._underlying[0], sum_over=t2._underlying[1])
                    new_name = "Net Cost"
                    if how == "view":
                        t2._underlying[1].name = new_name
                    elif not isinstance(N[1], str) or N.index(N[1]) != 1:
                        continue
                    elif how == "rename_column":
                        t2.rename_column(fresh(N[1]), fresh(new_name))
                    else:
                        t2.rename_columns([fresh(N[1])], [fresh(new_name)])
                    r = getattr(t2, meth)(over=t2._underlying[0], sum_over=t2._underlying[1], mean_over=t2._underlying[1])
                except Exception:
                    agg.skipped["operation-raises"] += 1
                    continue
                ok(f"table.{meth}.after-{how}", dict(case, history=[meth, how, meth]),
                   agg_expected([N[0]], [("sum", new_name), ("mean", new_name)], []), vnames(r))
    # external unnamed key / value vectors
    ek = Vector(list(range(nrows)))
    ev = Vector(list(range(nrows)))
    for meth in ("aggregate", "window"):
        r = attempt(meth, case, lambda: getattr(t, meth)(over=ek, sum_over=ev, count_over=[ev, t._underlying[0]]))
        if r is not None:
            ok(f"table.{meth}.unnamed", dict(case, shape="unnamed external key and value"),
               agg_expected([None], [("sum", None), ("count", None), ("count", N[0])], []), vnames(r))


def _sym(want, got):
    if isinstance(want, list) and isinstance(got, list):
        if len(want) != len(got):
            return "wrong-number-of-names"
        if len(set(map(repr, got))) < len(got) and len(set(map(repr, want))) == len(want):
            return "duplicate-output-names"
        if sorted(map(repr, want)) == sorted(map(repr, got)):
            return "names-in-wrong-order"
        return "wrong-names"
    if want is None:
        return "name-kept-where-it-must-be-dropped"
    if got is None:
        return "name-dropped-where-it-must-be-kept"
    return "wrong-name"


def run_unit(unit):
    from serif import Vector, Table
    agg = Agg()
    what = unit[0]
    seeds = []
    if what == "vec":
        for nm in NAMES:
            seeds.append(("V", Vector([3, 1, 2], name=nm)))
            seeds.append(("V", Vector([3, None, 2], name=nm)))        # the same rules for a vector that holds None
            seeds.append(("V", Vector(["b", "a", None], name=nm)))
    else:
        names = unit[1]
        cols = [Vector([3, 1, 2][:3] if i == 0 else [10 * (i + 1) + j for j in range(3)], name=nm) for i, nm in enumerate(names)]
        seeds.append(("T", Table(cols)))
    D = unit[-1] if isinstance(unit[-1], int) else 2
    frontier = seeds
    seen = set()
    for depth in range(D):
        nxt = []
        for obj in frontier:
            key = (obj[0], repr(obj[1]._name) if obj[0] == "V" else repr(vnames(obj[1])), len(obj[1]))
            if depth > 0 and key in seen:
                continue
            seen.add(key)
            agg.states += 1
            nm = [obj[1]._name] if obj[0] == "V" else vnames(obj[1])
            if any(n in (None, "", "x y", "sum", "1a") for n in nm) or len(set(map(repr, nm))) < len(nm):
                agg.nontrivial += 1
            step_checks(agg, obj, depth, nxt)
        frontier = nxt
    agg.sample({"seed": what if what == "vec" else list(unit[1]), "depth": D})
    return agg


def check(ctx):
    W = ctx.pick(2, 3)
    D = ctx.pick(2, 3)
    units = [("vec", D)]
    for w in range(1, W + 1):
        for names in itertools.product(NAMES, repeat=w):
            units.append(("tab", names, D))
    agg = core.merge_all(core.pmap(run_unit, units))
    agg.notes["bound"] = f"table width<={W}, composition depth<={D}, {len(NAMES)}-name alphabet"
    agg.notes["exhaustive"] = True
    return agg


def coverage_goals(ctx, agg):
    return [] if agg.outcomes.get("name-rule-holds", 0) > 5000 else ["name-rule-holds"]


def replay(rec):
    return None
