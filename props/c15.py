"""C15 — alias tracking is exact: no leaked write, no spurious refusal (Engine H, adversarial allocator, GC events)."""
from __future__ import annotations

from mc import core, explorer, valloc
from mc.core import Agg, V
from mc.explorer import Slot, World, Outcome
from mc.models import obs, is_table

RULE = ("breadth-first exploration of histories over a pool of <=3 vectors, <=1 table (+<=1 column view), <=1 caller tuple: construction "
        "from a list / from the shared caller tuple / empty, copy, slices, arithmetic, tables from dict, row slice/mask, >> (the paths on which "
        "__init__ runs twice), column replacement by list and by vector, column views; element and promoting writes on every vector-like "
        "handle, table cell writes, writes on empty vectors; drop(handle) and collect as separate events (deferred collection); and - as "
        "enumerated ENVIRONMENT CHOICES bounded by a deviation budget - the identity the allocator gives to each newly named storage tuple: "
        "fresh, or the identity of any freed tuple that still has a live registration. Oracle: shadow sharing relation (a write must raise "
        "AliasError iff another uncollected vector object holds the same storage token); nothing else changes. "
        "non-trivial = write transition (accepted or refused)")
ASSUMPTIONS = ["identity reuse is over-approximated: any freed storage identity may be given to any new tuple (size classes are ignored)",
               "temporaries are freed by exact reference counting (CPython); other interpreters are modelled by the drop/collect events only",
               "empty storage (CPython's interned ()) is never virtualised; writes on empty vectors must simply succeed"]


class Disabled(Exception):
    pass


class Driver:
    Disabled = Disabled

    def __init__(self, max_dev=1, seed_ids=(0, 1)):
        self.max_dev = max_dev
        self.seed_ids = tuple(seed_ids)

    # ------------------------------------------------------------------ world
    def new_world(self):
        w = World()
        w.extra["script"] = []      # allocator choices for the event being executed
        w.extra["log"] = []         # (number of candidates) at each naming point of the last event
        w.extra["storage"] = {}     # object token -> storage token
        w.extra["dev"] = 0

        def chooser(cands):
            sc = w.extra["script"]
            i = len(w.extra["log"])
            w.extra["log"].append(len(cands))
            if i < len(sc) and sc[i]:
                if sc[i] - 1 >= len(cands):
                    raise Disabled()
                return sc[i] - 1
            return None

        w.alloc = valloc.install("adversarial", chooser)
        return w

    def after_event(self, world):
        # exact reference counting: release everything nobody references any more (to a fixpoint)
        while world.alloc.sweep():
            pass

    def seeds(self):
        S = [[], [("tuple",), ("V_tup", 0), ("V_tup", 0), ("V_tup", 0)], [("tuple",), ("V_tup", 0), ("V_tup", 0)]]
        return [S[i] for i in self.seed_ids]

    def snapshot(self, world):
        out = []
        for s in world.slots:
            if s.kind == "tup":
                out.append(("tup", tuple(s.obj)))
            else:
                out.append(obs(s.obj))
        return out

    def canon(self, world):
        c = explorer.canon_world(world, "full", refcounts=True)
        cands = tuple(sorted(len(world.alloc.reuse_candidates()) for _ in (0,)))
        return (c, cands, world.extra["dev"])

    # ------------------------------------------------------------------ shadow helpers
    def live_tokens(self, world):
        """object tokens of every uncollected vector object"""
        live = set()
        for s in world.slots:
            if s.kind in ("vec", "col"):
                live.add(s.token)
            if s.kind == "tab":
                live.update(s.coltokens)
        for s in world.limbo_slots():
            if s.kind in ("vec", "col"):
                live.add(s.token)
            if s.kind == "tab":
                live.update(s.coltokens)
        return live

    # ------------------------------------------------------------------ events
    def events(self, world):
        sl = world.slots
        ev = []
        vecs = [i for i, s in enumerate(sl) if s.kind in ("vec", "col")]
        plain = [i for i, s in enumerate(sl) if s.kind == "vec"]
        tabs = [i for i, s in enumerate(sl) if s.kind == "tab"]
        tups = [i for i, s in enumerate(sl) if s.kind == "tup"]
        cols = [i for i, s in enumerate(sl) if s.kind == "col"]
        room_v = len(plain) < 3
        if not tups:
            ev.append(("tuple",))
        if room_v:
            ev.append(("V_list",))
            ev.append(("V_empty",))
            for i in tups:
                ev.append(("V_tup", i))
            for i in vecs:
                ev += [("copy", i), ("slice", i), ("sliceall", i), ("add1", i), ("lshift_empty", i), ("rlshift_empty", i)]
        if not tabs:
            ev.append(("T_dict",))
            for i in plain:
                for j in plain:
                    if i < j and len(sl[i].obj) == len(sl[j].obj) and len(sl[i].obj):
                        ev.append(("rshift_vv", i, j))
        for t in tabs:
            ev += [("t_slice", t), ("t_mask", t), ("rshift_tdict", t), ("t_setattr_list", t), ("tw_cell", t)]
            for v in plain:
                if len(sl[v].obj) == len(sl[t].obj):
                    ev.append(("t_setattr_vec", t, v))
            if not cols:
                ev.append(("getcol", t, 0))
        for i in vecs:
            ev += [("w_int", i), ("w_promote", i)]
            if len(sl[i].obj) == 0:
                ev.append(("w_empty", i))
        for i in range(len(sl)):
            ev.append(("drop", i))
            ev.append(("dropc", i))         # drop and collect at once (what reference counting does)
        if world.limbo:
            ev.append(("collect",))
        return ev

    def variants(self, world, hist, ev):
        """identity-reuse deviations for the event just executed with its current script"""
        if world.extra["dev"] >= self.max_dev:
            return []
        base = tuple(ev[-1]) if (ev and isinstance(ev[-1], tuple) and ev[-1] and ev[-1][0] == "alloc") else None
        if base is not None:
            return []          # variants are generated from the default execution only (plus second-level below)
        out = []
        for i, ncand in enumerate(world.extra["log"]):
            for c in range(1, ncand + 1):
                script = [0] * i + [c]
                out.append(tuple(ev) + (("alloc",) + tuple(script),))
        return out

    # ------------------------------------------------------------------ apply
    def apply(self, world, ev):
        from serif import Vector, Table
        from serif.alias_tracker import AliasError
        sl = world.slots
        st = world.extra["storage"]
        script = []
        if ev and isinstance(ev[-1], tuple) and ev[-1] and ev[-1][0] == "alloc":
            script = list(ev[-1][1:])
            ev = ev[:-1]
            world.extra["dev"] += sum(1 for x in script if x)
        world.extra["script"] = script
        world.extra["log"] = []
        op = ev[0]

        def tok():
            return ("k", world.fresh())

        def new_vec(v, storage=None):
            k = tok()
            st[k] = storage or tok()
            sl.append(Slot("vec", v, k))
            return Outcome(new=len(sl) - 1, readonly=True)

        def new_tab(t):
            ks = []
            for _ in t._underlying:
                k = tok()
                st[k] = tok()
                ks.append(k)
            sl.append(Slot("tab", t, tok(), ks))
            return Outcome(new=len(sl) - 1, readonly=True)

        def new_any(r):
            if is_table(r):
                if any(s.kind == "tab" for s in sl):
                    raise Disabled()
                return new_tab(r)
            if isinstance(r, Vector):
                return new_vec(r)
            raise Disabled()

        def write(slot_idx, thunk, object_token, retoken):
            """object_token: the vector being written; expected refusal iff another live vector shares its storage."""
            live = self.live_tokens(world)
            S = st.get(object_token)
            sharers = [k for k in live if k != object_token and st.get(k) == S]
            try:
                thunk()
                raised = None
            except Exception as e:
                raised = explorer.detach(e)
            out = Outcome(raised=raised)
            out.note = {"sharers": len(sharers), "alias_error": isinstance(raised, AliasError)}
            if raised is None:
                for k in retoken:
                    st[k] = tok()
                tg = set()
                for i, s in enumerate(sl):
                    if s.kind in ("vec", "col") and s.token in retoken:
                        tg.add(i)
                    if s.kind == "tab" and any(k in s.coltokens for k in retoken):
                        tg.add(i)
                out.targets = tg
            return out

        try:
            if op == "tuple":
                k = world.fresh()
                sl.append(Slot("tup", (k, k + 1), tok()))
                return Outcome(new=len(sl) - 1, readonly=True)
            if op == "V_list":
                k = world.fresh()
                return new_vec(Vector([k, k + 1]))
            if op == "V_empty":
                return new_vec(Vector([]))
            if op == "V_tup":
                t = sl[ev[1]]
                return new_vec(Vector(t.obj), storage=t.token)
            if op in ("copy", "slice", "sliceall", "add1", "lshift_empty", "rlshift_empty"):
                x = sl[ev[1]].obj
                if op == "copy":
                    r = x.copy()
                elif op == "slice":
                    r = x[0:1]
                elif op == "sliceall":
                    r = x[:]
                elif op == "add1":
                    r = x + 1
                elif op == "lshift_empty":
                    r = x << []          # concatenation with nothing: an operation result, its own vector
                else:
                    r = [] << x
                return new_any(r)
            if op == "T_dict":
                k = world.fresh()
                return new_tab(Table({"a": [k, k + 1], "b": [k + 2, k + 3]}))
            if op == "rshift_vv":
                return new_any(sl[ev[1]].obj >> sl[ev[2]].obj)
            if op in ("t_slice", "t_mask", "rshift_tdict"):
                # the derived table REPLACES the pool's table handle (the old one is dropped and collected at once)
                t = ev[1]
                T = sl[t].obj
                if op == "t_slice":
                    r = T[0:1]
                elif op == "t_mask":
                    r = T[[True] + [False] * (len(T) - 1)] if len(T) else None
                else:
                    r = T >> {"c": [world.fresh() for _ in range(len(T))]}
                if r is None or not is_table(r):
                    raise Disabled()
                ks = []
                for _ in r._underlying:
                    k = tok(); st[k] = tok(); ks.append(k)
                old = sl[t]
                sl[t] = Slot("tab", r, tok(), ks)
                del old, T
                return Outcome(targets={t}, readonly=False)
            if op == "getcol":
                t = sl[ev[1]]
                col = t.obj.cols(ev[2])
                sl.append(Slot("col", col, t.coltokens[ev[2]]))
                return Outcome(new=len(sl) - 1, readonly=True)
            if op in ("t_setattr_list", "t_setattr_vec"):
                t = ev[1]
                T = sl[t].obj
                value = [world.fresh() for _ in range(len(T))] if op == "t_setattr_list" else sl[ev[2]].obj
                acc = None
                for a in sorted(set(dir(T)) - set(object.__dir__(T))):
                    try:
                        if getattr(T, a) is T._underlying[0]:
                            acc = a
                            break
                    except Exception:
                        pass
                if acc is None:
                    raise Disabled()
                try:
                    setattr(T, acc, value)
                except Exception as e:
                    return Outcome(raised=e)
                k = tok(); st[k] = tok()
                sl[t].coltokens[0] = k
                return Outcome(targets={t})
            if op in ("w_int", "w_promote", "w_empty"):
                s = sl[ev[1]]
                x = s.obj
                n = len(x)
                if op == "w_empty":
                    return write(ev[1], lambda: x.__setitem__(slice(None), []), s.token, [s.token])
                if n == 0:
                    raise Disabled()
                old = x._underlying[0]
                base = old if isinstance(old, (int, float)) and not isinstance(old, bool) else 0
                new = base + 1 if op == "w_int" else base + 0.5
                return write(ev[1], lambda: x.__setitem__(0, new), s.token, [s.token])
            if op == "tw_cell":
                t = ev[1]
                T = sl[t].obj
                if len(T) == 0 or not T._underlying:
                    raise Disabled()
                k = sl[t].coltokens[0]
                old = T._underlying[0]._underlying[0]
                base = old if isinstance(old, (int, float)) and not isinstance(old, bool) else 0
                return write(t, lambda: T.__setitem__((0, 0), base + 1), k, [k])
            if op == "drop":
                s = sl.pop(ev[1])
                world.limbo.append(s.obj)
                world.extra.setdefault("limbo_slots", []).append(s)
                return Outcome(readonly=True)
            if op == "dropc":
                s = sl.pop(ev[1])
                del s
                return Outcome(readonly=True)
            if op == "collect":
                world.limbo.clear()
                world.extra["limbo_slots"] = []
                return Outcome(readonly=True)
        except Disabled:
            raise
        except Exception as e:
            return Outcome(raised=e, readonly=True)
        raise Disabled()

    # ------------------------------------------------------------------ monitor
    def check(self, world, pre, ev, out, agg, hist):
        from serif.alias_tracker import AliasError
        case = {"history": [_ev_json(e) for e in hist], "slot_kinds": [s.kind for s in world.slots]}
        op = ev[0]
        if out.note is not None:
            agg.nontrivial += 1
            sharers, ae = out.note["sharers"], out.note["alias_error"]
            if ae and sharers == 0:
                dev = sum(1 for e in hist if isinstance(e[-1], tuple) and e[-1] and e[-1][0] == "alloc")
                agg.violation(V(f"write.{op}", "spurious-AliasError" + ("-after-identity-reuse" if dev else ""), case,
                                "write succeeds (no other live vector shares the storage)", "AliasError", _py(hist)))
                agg.outcomes["spurious-refusal"] += 1
            elif (not ae) and out.raised is None and sharers > 0:
                agg.violation(V(f"write.{op}", "write-accepted-although-storage-is-shared", case, "AliasError", "write accepted", _py(hist)))
                agg.outcomes["missed-refusal"] += 1
            elif out.raised is not None and not ae:
                agg.violation(V(f"write.{op}", "write-raises-" + type(out.raised).__name__, case, None, repr(out.raised)[:80], _py(hist)))
            elif ae:
                agg.outcomes["justified-refusal"] += 1
            else:
                agg.outcomes["write-ok"] += 1
        elif out.raised is not None:
            agg.outcomes["non-write-event-refused:" + type(out.raised).__name__] += 1      # e.g. typesafe concatenation; must change nothing
        else:
            agg.outcomes["other-event"] += 1
        # nothing outside the target set changes; a refused write changes nothing at all
        if op in ("drop", "dropc", "t_slice", "t_mask", "rshift_tdict"):
            return
        post = self.snapshot(world)
        for i in range(min(len(pre), len(post))):
            if i in out.targets:
                continue
            if post[i] != pre[i]:
                agg.violation(V(f"event.{op}", "write-observed-by-another-object" if out.raised is None else "refused-write-changed-an-object",
                                dict(case, changed_slot=i), pre[i], post[i], _py(hist)))
                return


def _limbo_slots(self):
    return self.extra.get("limbo_slots", [])


World.limbo_slots = _limbo_slots


def _ev_json(e):
    return [list(x) if isinstance(x, tuple) else x for x in e]


def _py(hist):
    return ("# history of (event, slot indices[, ('alloc', choices...)]); choice k>0 at a naming point = the new storage tuple receives the\n"
            "# identity of the k-th freed tuple that still has a live registration\n# " + repr([_ev_json(e) for e in hist]))


def unit_catalogue(unit):
    """E part: after EVERY operation of the run-time derivation catalogue (mc/purity.py: operators with every second operand in both
    orders, every public method / property, indexing, joins, aggregate, window, sort, stacking, fillna / cast with promoting
    arguments ...) the result is kept alive; then every live vector (operand, relatives, result columns) and a batch of brand-new
    vectors of the lengths just freed are written, under CPython-like identity recycling.  A refusal is justified only if another
    LIVE vector object really holds the very same storage tuple; self-assignments (v[:] = v, m[m] = False) involve no second owner."""
    from serif import Vector, Table
    from serif.alias_tracker import AliasError
    from mc import purity
    _, kind, form, ykind = unit
    core.reset_globals("recycle")
    agg = Agg()

    def live_vectors(objs):
        out = []
        for o in objs:
            if purity.is_row(o) or not purity.is_vec(o):
                continue
            if is_table(o):
                out += [c for c in o._underlying if purity.is_vec(c) and not is_table(c)]
            else:
                out.append(o)
        return out

    def judge_write(site, case, target, others):
        if not len(target._underlying):
            return
        agg.evals += 1; agg.transitions += 1; agg.compared += 1; agg.nontrivial += 1
        # (a vector whose cells are vectors holds them by reference - DESIGN 13.5 - and is not watched)
        watch = [(o, obs(o)) for o in others if o is not target and not purity.holds_vectors_by_reference(o)]
        try:
            target[0] = purity._bump(target._underlying)
            for o, b in watch:
                if obs(o) != b:
                    agg.violation(V(site, "write-observed-through-another-vector", case, b, obs(o)))
                    return False
        except AliasError:
            shared = any(o is not target and o._underlying is target._underlying for o in others)
            if not shared:
                agg.violation(V(site, "spurious-AliasError", case, "written", "AliasError"))
                return False
            agg.outcomes["justified-refusal"] += 1
            return True
        except Exception:
            agg.skipped["write-refused-for-another-reason"] += 1
            return True
        agg.outcomes["write-ok"] += 1
        return True

    extra = [("x.fillna(promoting)", lambda sc: sc.x.fillna(2.5)), ("x.fillna(complex)", lambda sc: sc.x.fillna(1j)), ("x.cast(float)", lambda sc: sc.x.cast(float)),
             ("x[:] = x", lambda sc: sc.x.__setitem__(slice(None), sc.x)), ("x[::-1] = x", lambda sc: sc.x.__setitem__(slice(None, None, -1), sc.x)),
             ("x[x] = False", lambda sc: sc.x.__setitem__(sc.x, False)), ("x[[0, 1]] = x[[1, 0]]", lambda sc: sc.x.__setitem__([0, 1], sc.x[[1, 0]])),
             ("x[0:2] = x[0:2]", lambda sc: sc.x.__setitem__(slice(0, 2), sc.x[0:2])), ("x[mask] = x", lambda sc: sc.x.__setitem__([True] * len(sc.x), sc.x))]
    if form == "table":
        # column replacement through every accessor form (plain, indexed name__N, colN_), by list and by vector
        extra += [("t.x = list", lambda sc: setattr(sc.x, "x", [5, 6, 7])), ("t.x__0 = list", lambda sc: setattr(sc.x, "x__0", [5, 6, 7])),
                  ("t.s__1 = vector", lambda sc: setattr(sc.x, "s__1", Vector([5, 6, 7]))), ("t.s = vector", lambda sc: setattr(sc.x, "s", Vector([5, 6, 7], name="s"))),
                  ("t.rename_column", lambda sc: sc.x.rename_column("s", "z")), ("t[:, 0] = list", lambda sc: sc.x.__setitem__((slice(None), 0), list(sc.x._underlying[0]._underlying))),
                  ("t[0:3, 0:2] = t2", lambda sc: sc.x.__setitem__((slice(0, 3), slice(0, 2)), Table([Vector(list(c._underlying)) for c in sc.x._underlying]))),
                  ("t[:, 0] = scalar", lambda sc: sc.x.__setitem__((slice(None), 0), sc.x._underlying[0]._underlying[0] if len(sc.x) else 0)),
                  ("t[:] = row", lambda sc: sc.x.__setitem__(slice(None), 0)),
                  ("book[0, 0] = cell (table of tables)", lambda sc: Vector([sc.x, Table([Vector(list(c._underlying), name=c._name) for c in sc.x._underlying])]).__setitem__((0, 0), 0))]
    for label, fn, live in list(purity.all_derivations(kind, form, ykind)) + ([(l, f, False) for l, f in extra] if ykind is None else []):
        sc = purity.Scenario(kind, form, ykind)
        case = {"operand": kind, "form": form, "second_operand": ykind, "operation": label}
        agg.states += 1
        try:
            r = fn(sc)
            raised = None
        except AliasError as e:
            r, raised = None, e
        except Exception:
            r, raised = None, "other"
        objs = list(sc.objects.values())
        if raised is not None and raised != "other":
            # the operation itself was refused: do two live vectors really hold one and the same NON-EMPTY storage tuple?
            # (every empty vector holds CPython's interned (): nothing can leak through it, it is never a reason to refuse)
            vs = live_vectors(objs)
            really_shared = any(a is not b and len(a._underlying) and a._underlying is b._underlying for a in vs for b in vs)
            if not really_shared:
                agg.violation(V("catalogue." + form + "." + purity._site(label), "spurious-AliasError", case, "performed", "AliasError"))
            continue
        keep = r
        # rows are read-only views: a write to one fails - and must leave nothing registered behind either
        for o in objs + (list(r) if isinstance(r, (list, tuple)) else [r]):
            if purity.is_row(o):
                for attempt in (lambda: o.__setitem__(0, 1), lambda: o.__setitem__(slice(0, 2), [1, 2]), lambda: o.__setitem__([True] * len(o), 5)):
                    try:
                        attempt()
                    except Exception:
                        pass
        results = live_vectors(r if isinstance(r, (list, tuple)) else [r])
        vs = live_vectors(objs) + results
        okk = True
        for tgt in vs:
            for _ in (0, 1):      # twice: the first write moves the vector to a recycled identity, the second is judged under that one
                if judge_write("catalogue." + form + "." + purity._site(label), dict(case, written="an operand / relative / result column"), tgt, vs) is False:
                    okk = False
                    break
            if not okk:
                break
        if not okk:
            continue
        # every freed storage identity that still has a LIVE registration is handed, on purpose, to a brand-new vector of that length
        # (the interpreter may reuse the address of freed storage at any time): the new vector shares storage with nobody
        from serif.alias_tracker import _ALIAS_TRACKER
        al = valloc.CURRENT
        al.sweep()
        for L_, stack in list(al.freeby.items()):
            for v_ in list(stack):
                refs = _ALIAS_TRACKER._registry.get(v_)
                if refs and any(r_() is not None for r_ in refs) and okk:
                    stack.remove(v_); stack.append(v_)              # next tuple of this length receives exactly this identity
                    w = Vector([2000 + i for i in range(L_)])
                    agg.evals += 1; agg.transitions += 1; agg.compared += 1; agg.nontrivial += 1
                    if al.vid_of(w._underlying) != v_:
                        agg.skipped["could-not-steer-identity-reuse"] += 1
                        continue
                    try:
                        w[0] = 1
                        agg.outcomes["write-ok"] += 1
                    except AliasError:
                        agg.violation(V("catalogue." + form + "." + purity._site(label), "spurious-AliasError-after-identity-reuse",
                                        dict(case, written=f"a brand-new vector of length {L_} that received the identity of freed storage"), "written", "AliasError"))
                        okk = False
                    except Exception:
                        pass
        if not okk:
            continue
        # brand-new vectors of the lengths in play: with recycled identities they receive the identities of whatever the operation freed
        fresh = []
        for n in sorted({len(o._underlying) for o in vs if len(o._underlying)} | {1, 2, 3}):
            for rep in range(6):
                w = Vector([1000 + rep + i for i in range(n)])
                fresh.append(w)
                # written twice: the first write moves w to yet another recycled identity, the second is checked under that one
                for _ in (0, 1):
                    if judge_write("catalogue." + form + "." + purity._site(label), dict(case, written=f"a brand-new vector of length {n} created afterwards"), w, vs + fresh) is False:
                        okk = False
                        break
                if not okk:
                    break
            if not okk:
                break
        del keep
    return agg


def unit_threads(unit):
    """the same four-step history over one caller tuple (build a, write a, build b, write b - and the reverse roles) with every
    assignment of the steps to two threads, run strictly one after the other (no concurrency): which thread performs a step is
    not part of the statement, so every schedule must behave like the single-threaded one"""
    import itertools, threading
    from serif import Vector
    from serif.alias_tracker import AliasError
    agg = Agg()
    for sched in itertools.product((0, 1), repeat=4):
        for variant in ("write-a-first", "build-both-first"):
            agg.evals += 1; agg.transitions += 4; agg.states += 1; agg.nontrivial += 1; agg.compared += 1
            core.reset_globals("fresh")
            box = {}
            tup = (1, 2, 3)

            def step(i):
                try:
                    if variant == "write-a-first":
                        if i == 0: box["a"] = Vector(tup)
                        elif i == 1: box["a"][0] = 9
                        elif i == 2: box["b"] = Vector(tup)
                        else: box["b"][0] = 8
                    else:
                        if i == 0: box["a"] = Vector(tup)
                        elif i == 1: box["b"] = Vector(tup)
                        elif i == 2: box["a"] = None          # the first sharer is dropped ...
                        else: box["b"][0] = 8                 # ... so the survivor shares with nobody
                    box[("ok", i)] = True
                except AliasError:
                    box[("refused", i)] = True
                except Exception as e:
                    box[("error", i)] = repr(e)[:60]
            for i, th in enumerate(sched):
                if th == 0:
                    step(i)
                else:
                    t_ = threading.Thread(target=step, args=(i,))
                    t_.start(); t_.join()
            case = {"steps_run_in_thread": list(sched), "steps": variant}
            refused = [i for i in range(4) if box.get(("refused", i))]
            errors = [box[("error", i)] for i in range(4) if ("error", i) in box]
            # single-threaded truth: in 'write-a-first' a shares with nobody when written (b does not exist yet) and has left the tuple when b is written
            if refused or errors:
                agg.violation(V("threads", "spurious-AliasError-when-steps-run-in-different-threads" if refused else "raises", case, "all four steps performed", {"refused": refused, "errors": errors}))
            else:
                agg.outcomes["write-ok"] += 1
    core.reset_globals("fresh")
    return agg


def _clone_run(seq):
    """replay one sequence of clone-history operations from scratch; returns (objects, error of the LAST op or None)"""
    import copy, gc
    from serif import Vector, Table
    objs, n, last = [], 0, None
    for op in seq:
        last = None
        kind = op[0]
        try:
            if kind == "new":
                objs.append(Vector([1, 2, 3]))
            elif kind == "newtab":
                objs.append(Table({"a": [1, 2, 3], "b": [4, 5, 6]}))
            elif kind == "tuple":
                tup = tuple([7, 8, 9])          # a NEW tuple object in every replay (a literal would be one shared constant)
                objs.append(Vector(tup)); objs.append(Vector(tup))
            elif kind == "copy":
                objs.append(copy.copy(objs[op[1]]))
            elif kind == "deepcopy":
                objs.append(copy.deepcopy(objs[op[1]]))
            elif kind == "cols":          # a second vector over the storage tuple of a vector / of a table's first column
                src = objs[op[1]]
                objs.append(Vector(src["a"].cols() if type(src).__name__ == "Table" else src.cols()))
                del src
            elif kind == "drop":
                objs[op[1]] = None
                gc.collect(1)               # "garbage-collected": a table and its columns may sit in a reference cycle (young generations suffice here)
                from mc import valloc
                if valloc.CURRENT is not None:
                    valloc.CURRENT.sweep()      # the virtual allocator lets go of storage that only it still references (as CPython frees it)
            elif kind == "write":
                n += 1
                x = objs[op[1]]
                try:
                    if type(x).__name__ == "Table":
                        if op[2] == "cell":
                            x[0, "a"] = 100 + n
                        elif op[2] == "row":
                            x[1] = [200 + n, 300 + n]
                        else:
                            x["a"][2] = 400 + n
                    else:
                        x[0] = 100 + n
                finally:
                    del x
        except Exception as e:
            last = e
    return objs, last


def _storage_of(x):
    return x._underlying[0]._underlying if type(x).__name__ == "Table" else x._underlying


def unit_clone_histories(unit):
    """histories over vectors that reach a storage tuple by OTHER routes than the constructor: copy.copy / copy.deepcopy clones
    (never registered as owners), `Vector(x.cols())` (a second vector over x's own storage, also over a table column's), dropped
    partners - every sequence of <= depth operations on <= 3 objects, and after each one a write through every live object (a table
    through cell, row and column view).  Judged: an AliasError while NO other live object holds that storage tuple is spurious.
    Whether a write next to a live sharer is refused is not judged here (the H part does that for registered sharers)."""
    from serif.alias_tracker import AliasError
    _, first, depth = unit
    agg = Agg()
    core.reset_globals("fresh")

    def ops_for(objs):
        out = []
        live = [i for i, o in enumerate(objs) if o is not None]
        if len(objs) < 3:               # at most three objects are ever created in one history
            for i in live:
                out += [("copy", i), ("cols", i)]
                if type(objs[i]).__name__ != "Table":
                    out.append(("deepcopy", i))
        for i in live:
            out.append(("drop", i))
            out.append(("write", i, "cell" if type(objs[i]).__name__ == "Table" else "elem"))      # inside a history one write form; the probes use all
        return out

    def probe(seq):
        objs, _ = _clone_run(seq)
        shape = [None if o is None else type(o).__name__ for o in objs]
        del objs
        for i, tn in enumerate(shape):
            if tn is None:
                continue
            for w in (("cell", "row", "view") if tn == "Table" else ("elem",)):
                agg.evals += 1; agg.transitions += 1; agg.compared += 1
                objs2, err = _clone_run(seq + [("write", i, w)])
                if isinstance(err, AliasError):
                    tgt = objs2[i]
                    sharers = [j for j, y in enumerate(objs2) if y is not None and j != i and _storage_of(y) is _storage_of(tgt)]
                    if type(tgt).__name__ == "Table":
                        sharers = [j for j in sharers if objs2[j] is not tgt]
                    if not sharers:
                        agg.nontrivial += 1
                        agg.violation(V("clones.write", "spurious-AliasError", {"steps": [list(o_) for o_ in seq] + [["write", i, w]], "family": "clone histories"},
                                        "written (no other live object holds that storage)", "AliasError"))
                    else:
                        agg.outcomes["justified-refusal"] += 1
                elif err is None:
                    agg.outcomes["write-ok"] += 1
                else:
                    agg.outcomes["other-event"] += 1

    def dfs(seq, d):
        agg.states += 1
        probe(seq)
        if d == 0:
            return
        objs, _ = _clone_run(seq)
        ops = ops_for(objs)
        del objs                       # nothing of this replay may stay alive while the next ones run
        for op in ops:
            dfs(seq + [op], d - 1)
    dfs([first], depth)
    core.reset_globals("fresh")
    return agg


def unit_many_sharers(unit):
    """k = 2 .. 33 vectors alive over ONE caller tuple; all but one are dropped (the survivor first-, last- or middle-built, the
    others dropped in building or in reverse order): the survivor shares with nobody and is written.  With two survivors the
    write is refused; after one more drop it is accepted."""
    from serif import Vector
    from serif.alias_tracker import AliasError
    agg = Agg()
    core.reset_globals("fresh")
    for k in range(2, 34):
        for keep in sorted({0, k - 1, k // 2}):
            for order in ("building-order", "reverse-order"):
                for leave_two in (False, True):
                    if leave_two and k < 3:
                        continue
                    agg.evals += 1; agg.transitions += k + 2; agg.states += 1; agg.nontrivial += 1; agg.compared += 1
                    case = {"sharers_built": k, "survivor": keep, "dropped_in": order, "family": "many sharers", "steps": ["build k vectors over one tuple", "drop all but the survivor", "write it"]}
                    tup = tuple(range(5))
                    vs = [Vector(tup) for _ in range(k)]
                    second = (keep + 1) % k
                    idx = [i for i in (range(k) if order == "building-order" else reversed(range(k))) if i != keep and not (leave_two and i == second)]
                    for i in idx:
                        vs[i] = None
                    try:
                        if leave_two:
                            try:
                                vs[keep][0] = 50
                            except AliasError:
                                pass
                            vs[second] = None
                        vs[keep][1] = 99
                    except AliasError:
                        agg.violation(V("many-sharers.write", "spurious-AliasError", case, "written (every partner has been dropped)", "AliasError"))
                        continue
                    except Exception as e:
                        agg.violation(V("many-sharers.write", "raises-" + type(e).__name__, case, None, repr(e)[:80]))
                        continue
                    agg.outcomes["write-ok"] += 1
    core.reset_globals("fresh")
    return agg


def check(ctx):
    agg = Agg()
    depth = ctx.pick(6, 7)
    depth_b = ctx.pick(4, 6)
    dev = ctx.pick(1, 2)
    explorer.bfs(Driver(max_dev=dev, seed_ids=(0,)), depth, agg)
    sizes_a = agg.notes.get("frontier_sizes")
    explorer.bfs(Driver(max_dev=dev, seed_ids=(1, 2)), depth_b, agg)
    agg.notes["frontier_sizes"] = {"empty-world": sizes_a, "two-and-three-sharers": agg.notes.get("frontier_sizes")}
    agg.notes["bound"] = (f"histories <= {depth} events from the empty world and <= {depth_b} events from the worlds with two / three vectors over one "
                          f"caller tuple, <= {dev} identity-reuse deviation(s)")
    from mc import purity
    cunits = [("cat", u[1], u[2], u[3]) for u in purity.plan(()) if u[1] not in ("acc", "acc?")]
    for p in core.pmap(unit_catalogue, cunits) + core.pmap(unit_threads, [("threads",), ("threads-again",)]):
        agg.merge(p)
    cd = ctx.pick(4, 5)
    for p in core.pmap(unit_clone_histories, [("clones", f, cd) for f in (("new",), ("newtab",), ("tuple",))]) + core.pmap(unit_many_sharers, [("many",)]):
        agg.merge(p)
    agg.notes["deviation_bound"] = dev
    agg.sample({"events": ["tuple", "V_tup", "V_list", "copy", "T_dict", "t_setattr_list", "w_int", "drop", "collect", "...+alloc choices"]})
    return agg


def coverage_goals(ctx, agg):
    bad = []
    if agg.outcomes.get("justified-refusal", 0) < 10:
        bad.append("justified AliasError refusals")
    if agg.outcomes.get("write-ok", 0) < 100:
        bad.append("accepted writes")
    return bad


def replay(rec):
    case = rec.get("case") or {}
    if case.get("family") == "many sharers":
        return set(unit_many_sharers(("many",)).viol)
    if case.get("family") == "clone histories":
        agg = Agg()
        from serif.alias_tracker import AliasError
        core.reset_globals("fresh")
        seq = [tuple(o) for o in case["steps"]]
        objs, err = _clone_run(seq)
        if isinstance(err, AliasError):
            agg.violation(V("clones.write", "spurious-AliasError", case))
        return set(agg.viol)
    if "steps_run_in_thread" in case:
        return set(unit_threads(("threads",)).viol)
    if "operation" in case and "operand" in case:
        return set(unit_catalogue(("cat", case["operand"], case["form"], case.get("second_operand"))).viol)
    if "history" not in case:
        return None
    hist = tuple(tuple(tuple(x) if isinstance(x, list) else x for x in e) for e in case["history"])
    agg = Agg()
    for dev in (2,):
        drv = Driver(max_dev=dev)
        w, pre, out = explorer.replay(drv, hist)
        drv.check(w, pre, hist[-1], out, agg, hist)
    return set(agg.viol)
