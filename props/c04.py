"""C04 — dtype inference and promotion form an order-independent lattice.

Engine A: closure of the promotion automaton with the real transition functions
          (a) promote_with on EVERY DataType(kind, nullable) x symbol (x symbol) combination,
          (b) breadth-first product of (specification state, implementation output) over words,
              with a well-definedness (conformance) check every time a state is re-reached.
Engine E: every word of length <= L over the 17-symbol type alphabet, two representatives per
          symbol, through infer_dtype and Vector(values).schema().
Part T  : 'typed by the same rule': arithmetic / join / aggregate / window / CSV result columns
          must carry expected_dtype(their own values).
"""
from __future__ import annotations

import io
import itertools
import warnings
from datetime import date, datetime, timedelta, time as dtime
from decimal import Decimal
from fractions import Fraction

from mc import core
from mc.core import Agg, V
from mc.models import expected_dtype, join_kinds

RULE = ("A: all (DataType, symbol[, symbol]) promotion combinations + BFS product automaton over words; "
        "E: every word over 19 type symbols (incl. Fraction and Decimal - numbers that are not on the ladder -, timedelta and time - temporal values that are not on it - and a subclass of a user class) up to the length bound, 2 representatives; "
        "non-trivial = word mixes >=2 distinct symbols (order/None-position can matter)")
ASSUMPTIONS = [
    "type alphabet: None,bool,int,float,complex,str,bytes,date,datetime,list,dict,tuple and two unrelated user classes; "
    "subclasses of builtin scalars are outside the alphabet (statement ambiguous for them)",
    "bottom (empty / all-None) is rendered as object?; only nullability is judged there",
]


class A:
    def __init__(self, n=0): self.n = n
    def __repr__(self): return f"A({self.n})"
    def __eq__(self, o): return type(o) is A and o.n == self.n
    def __hash__(self): return hash(("A", self.n))


class B:
    def __init__(self, n=0): self.n = n
    def __repr__(self): return f"B({self.n})"
    def __eq__(self, o): return type(o) is B and o.n == self.n
    def __hash__(self): return hash(("B", self.n))


class A2(A):
    """a subclass of A: an A2 IS an A for isinstance(), yet a mixture of A and A2 is a mixture of two kinds - in either order"""
    def __repr__(self): return f"A2({self.n})"
    def __eq__(self, o): return type(o) is A2 and o.n == self.n
    def __hash__(self): return hash(("A2", self.n))


SYMS = ["None", "bool", "int", "float", "complex", "str", "bytes", "date", "datetime",
        "list", "dict", "tuple", "A", "B", "Fraction", "Decimal", "A2", "timedelta", "time"]
REPS = {
    "None": (None, None),
    "bool": (True, False),
    "int": (1, -2),
    "float": (0.5, -1.5),
    "complex": (1j, 2 + 0j),
    "str": ("a", ""),
    "bytes": (b"x", b""),
    "date": (date(2020, 1, 2), date(1999, 12, 31)),
    "datetime": (datetime(2020, 1, 2, 3, 4), datetime(1999, 12, 31, 0, 0)),
    "list": ([1], []),
    "dict": ({"a": 1}, {}),
    "tuple": ((1,), ()),
    "A": (A(1), A(2)),
    "B": (B(1), B(2)),
    # numbers.Number subclasses that are NOT on the bool<int<float<complex ladder: "any other mixture yields object"
    "Fraction": (Fraction(1, 2), Fraction(3, 1)),
    "Decimal": (Decimal("1.5"), Decimal(2)),
    "A2": (A2(1), A2(2)),
    # temporal values that are NOT on the date<datetime ladder
    "timedelta": (timedelta(days=1), timedelta(0)),
    "time": (dtime(3, 4), dtime(0, 0)),
}
KIND = {"bool": bool, "int": int, "float": float, "complex": complex, "str": str, "bytes": bytes,
        "date": date, "datetime": datetime, "list": list, "dict": dict, "tuple": tuple, "A": A, "B": B,
        "Fraction": Fraction, "Decimal": Decimal, "A2": A2, "timedelta": timedelta, "time": dtime}


def kname(k):
    if isinstance(k, Raised):
        return repr(k)
    return "bottom" if k is None else k.__name__


def fmt(kn):
    k, n = kn
    return kname(k) + ("?" if n else "")


def dt_pair(dt):
    return (dt.kind, bool(dt.nullable))


class Raised:
    """Stand-in 'dtype' when the real function raised: never agrees with any specification."""
    def __init__(self, e): self.name = type(e).__name__
    def __eq__(self, o): return isinstance(o, Raised) and o.name == self.name
    def __hash__(self): return hash(self.name)
    def __iter__(self): return iter((self, False))
    def __repr__(self): return f"raises-{self.name}"


def safe_infer(vals):
    from serif.typing import infer_dtype
    try:
        return dt_pair(infer_dtype(vals))
    except Exception as e:
        r = Raised(e)
        return (r, False)


def word_values(word, rep):
    return [REPS[s][rep] for s in word]


def spec_of_word(word):
    return (join_kinds(KIND[s] for s in word if s != "None"), "None" in word)


def agrees(spec, got):
    """spec (kind|None, nullable) versus implementation (kind, nullable)."""
    sk, sn = spec
    gk, gn = got
    if sk is None:          # bottom: only nullability is judged
        return gn == sn or (not sn)   # empty word never judged; all-None must be nullable
    return sk is gk and sn == gn


def symptom(spec, got, word):
    sk, sn = spec
    gk, gn = got
    if gk is object and sk is not object and sk is not None and word and word[0] == "None":
        return "leading-none-degrades-to-object"
    if sk is gk or sk is None:
        return f"nullable-{sn}-got-{gn}"
    return f"expected-{kname(sk)}-got-{kname(gk)}"


# --------------------------------------------------------------------------------------
# Engine A (runs in the parent; milliseconds)
# --------------------------------------------------------------------------------------

def engine_a(agg: Agg):
    from serif.typing import DataType, infer_dtype

    kinds = list(KIND.values()) + [object]
    states = [DataType(k, n) for k in kinds for n in (False, True)]
    agg.notes["automaton_states_all_datatypes"] = len(states)

    def delta(s, sym, rep=0):
        return s.promote_with(REPS[sym][rep])

    def spec_delta(sp, sym):
        k, n = sp
        if sym == "None":
            return (k, True)
        if k is object:
            return (object, n)
        return (join_kinds([k, KIND[sym]]), n)

    ntrans = 0
    for s in states:
        sp = dt_pair(s)
        for a in SYMS:
            r0, r1 = delta(s, a, 0), delta(s, a, 1)
            ntrans += 2
            agg.transitions += 2
            agg.compared += 2
            case = {"part": "promote_with", "state": fmt(sp), "symbol": a}
            if dt_pair(r0) != dt_pair(r1):
                agg.violation(V("promote_with", "representative-dependent", case, None, [repr(r0), repr(r1)]))
            want = spec_delta(sp, a)
            got = dt_pair(r0)
            if got != want:
                agg.violation(V("promote_with", f"delta-{fmt(sp)}+{a}-expected-{fmt(want)}-got-{fmt(got)}"
                                if False else symptom(want, got, []) + "-step",
                                case, fmt(want), fmt(got),
                                py=f"from serif.typing import DataType\nfrom datetime import date, datetime\n"
                                   f"print(DataType({kname(sp[0])}, {sp[1]}).promote_with({REPS[a][0]!r}))  # expected {fmt(want)}"))
            # never narrows / never drops nullability
            if sp[1] and not got[1]:
                agg.violation(V("promote_with", "drops-nullability", case, True, False))
            if sp[0] is not object and got[0] is not object and sp[0] is not got[0]:
                if join_kinds([sp[0], got[0]]) is not got[0]:
                    agg.violation(V("promote_with", "narrows", case, fmt(sp), fmt(got)))
            if sp[0] is object and got[0] is not object:
                agg.violation(V("promote_with", "narrows", case, fmt(sp), fmt(got)))
            # idempotent
            again = dt_pair(delta(r0, a, 1))
            agg.transitions += 1
            if again != got:
                agg.violation(V("promote_with", "not-idempotent", case, fmt(got), fmt(again)))
            # commutation with every second symbol
            for b in SYMS:
                ab = dt_pair(delta(r0, b))
                ba = dt_pair(delta(delta(s, b), a))
                agg.transitions += 3
                agg.compared += 1
                if ab != ba:
                    c2 = dict(case, second=b)
                    agg.violation(V("promote_with", "order-dependent", c2, fmt(ab), fmt(ba)))
    agg.notes["automaton_transitions"] = ntrans

    # ---- BFS product automaton over words (start rule included) -----------------------
    seen = {}           # key -> (word, successors)
    frontier = [()]
    product_states = 0
    depth = 0
    while frontier:
        nxt = []
        for w in frontier:
            succ = {}
            for a in SYMS:
                w2 = w + (a,)
                r0 = safe_infer(word_values(w2, 0))
                r1 = safe_infer(word_values(w2, 1))
                agg.transitions += 2
                agg.compared += 2
                sp2 = spec_of_word(w2)
                if r0 != r1:
                    agg.violation(V("infer_dtype", "representative-dependent", {"word": list(w2)}, None, [fmt(r0), fmt(r1)]))
                if not agrees(sp2, r0):
                    agg.violation(V("infer_dtype", symptom(sp2, r0, w2), {"word": list(w2), "values": word_values(w2, 0)},
                                    fmt(sp2), fmt(r0),
                                    py=f"from serif.typing import infer_dtype\nfrom datetime import date, datetime\n"
                                       f"print(infer_dtype({word_values(w2, 0)!r}))  # expected {fmt(sp2)}"))
                key2 = (sp2, r0)
                succ[a] = key2
                if key2 not in seen:
                    seen[key2] = [w2, None]
                    nxt.append(w2)
                    product_states += 1
            k = (spec_of_word(w), safe_infer(word_values(w, 0))) if w else "start"
            if k in seen and seen[k][1] is not None and seen[k][1] != succ:
                agg.violation(V("infer_dtype", "state-abstraction-not-well-defined",
                                {"word": list(w), "other": list(seen[k][0])}, seen[k][1], succ))
            if k in seen:
                seen[k][1] = succ
            else:
                seen[k] = [w, succ]
        # conformance of the abstraction: one more word per key reached by a *different* path
        frontier = nxt
        depth += 1
    # second pass: permuted / longer alternative paths to each key must have the same successors
    alt_checked = 0
    for key, (w, succ) in list(seen.items()):
        if key == "start" or succ is None:
            continue
        for alt in (tuple(reversed(w)), w + w, w[-1:] + w):
            if spec_of_word(alt) != key[0]:
                continue
            r = safe_infer(word_values(alt, 1))
            agg.transitions += 1
            agg.compared += 1
            if not agrees(key[0], r):
                agg.violation(V("infer_dtype", symptom(key[0], r, alt), {"word": list(alt), "values": word_values(alt, 1)},
                                fmt(key[0]), fmt(r)))
            alt_checked += 1
    agg.states += len(states) + product_states
    agg.notes["product_states"] = product_states
    agg.notes["bfs_depth"] = depth
    agg.notes["alt_paths_checked"] = alt_checked


# --------------------------------------------------------------------------------------
# Engine E: all words up to a length
# --------------------------------------------------------------------------------------

def unit_words(unit):
    from serif import Vector
    from serif.typing import infer_dtype
    prefix, maxlen = unit
    agg = Agg()
    for L in range(0, maxlen - len(prefix) + 1):
        for tail in itertools.product(SYMS, repeat=L):
            w = tuple(prefix) + tail
            sp = spec_of_word(w)
            nontriv = len(set(w)) >= 2
            agg.states += 1
            if nontriv:
                agg.nontrivial += 1
            for rep in (0, 1):
                vals = word_values(w, rep)
                agg.evals += 1
                got = safe_infer(vals)
                agg.transitions += 1
                agg.compared += 1
                if not agrees(sp, got):
                    agg.violation(V("infer_dtype", symptom(sp, got, w), {"word": list(w), "values": vals}, fmt(sp), fmt(got),
                                    py=f"from serif.typing import infer_dtype\nfrom datetime import date, datetime\n"
                                       f"print(infer_dtype({vals!r}))  # expected {fmt(sp)}"))
                    agg.outcomes["mismatch"] += 1
                else:
                    agg.outcomes["agree-" + fmt(sp)] += 1
                if not vals:
                    continue          # Vector([]) has no schema by design; nothing to judge
                # the same values handed over as a tuple and as a one-shot generator must be typed the same way
                for form, arg in (("tuple", tuple(vals)), ("generator", (x for x in vals))):
                    try:
                        vs = Vector(arg)
                        ss = vs.schema()
                        agg.transitions += 1
                        agg.compared += 1
                        if ss is None or not agrees(sp, dt_pair(ss)) or list(vs._underlying) != vals:
                            agg.violation(V(f"Vector.schema.{form}", symptom(sp, dt_pair(ss), w) if ss is not None else "no-schema",
                                            {"word": list(w), "values": vals, "form": form}, fmt(sp), fmt(dt_pair(ss)) if ss is not None else None))
                    except Exception as e:
                        agg.violation(V(f"Vector.schema.{form}", "constructor-raises-" + type(e).__name__, {"word": list(w), "values": vals}))
                try:
                    v = Vector(vals)
                    s = v.schema()
                    agg.transitions += 1
                    agg.compared += 1
                    if s is None or not agrees(sp, dt_pair(s)):
                        g = None if s is None else dt_pair(s)
                        agg.violation(V("Vector.schema", symptom(sp, g, w) if g else "no-schema",
                                        {"word": list(w), "values": vals}, fmt(sp), fmt(g) if g else None,
                                        py=f"from serif import Vector\nfrom datetime import date, datetime\n"
                                           f"print(Vector({vals!r}).schema())  # expected {fmt(sp)}"))
                    elif list(v._underlying) != vals:
                        agg.violation(V("Vector.schema", "values-changed", {"word": list(w)}, vals, list(v._underlying)))
                except Exception as e:  # constructing a vector of plain values never fails
                    agg.violation(V("Vector.schema", "constructor-raises-" + type(e).__name__, {"word": list(w), "values": vals}))
    if agg.evals:
        agg.sample({"word": list(w), "expected": fmt(sp)})
    return agg


class IntSub(int):
    pass


class FloatSub(float):
    pass


class StrSub(str):
    pass


class DateSub(date):
    pass


class TupleSub(tuple):
    pass


import enum as _enum


class Colour(_enum.IntEnum):
    RED = 3
    BLUE = 4


def unit_subclasses(unit):
    """subclasses of the ladder kinds (an int subclass, an IntEnum member, float / str / date / tuple subclasses) next to plain
    values: whatever kind such a value counts as, "never on element order" - every permutation of a word of <= 3 elements is typed
    alike, by inference, by the Vector constructor and by a chain of promote_with steps, and promote_with steps commute"""
    from serif import Vector
    from serif.typing import infer_dtype, DataType
    agg = Agg()
    pool = {"None": None, "bool": True, "int": 5, "float": 2.5, "str": "a", "date": date(2020, 1, 2), "datetime": datetime(2020, 1, 2, 3), "tuple": (1, 2),
            "IntSub": IntSub(3), "IntEnum": Colour.RED, "FloatSub": FloatSub(1.5), "StrSub": StrSub("b"), "DateSub": DateSub(2021, 3, 4), "TupleSub": TupleSub((3,))}
    subs = ("IntSub", "IntEnum", "FloatSub", "StrSub", "DateSub", "TupleSub")
    for n in (2, 3):
        for word in itertools.combinations_with_replacement(sorted(pool), n):
            if not any(w in subs for w in word):
                continue
            agg.states += 1; agg.nontrivial += 1
            seen = {}
            for perm in set(itertools.permutations(word)):
                vals = [pool[w] for w in perm]
                agg.evals += 1; agg.transitions += 2; agg.compared += 2
                with warnings.catch_warnings():
                    warnings.simplefilter("ignore")
                    got = safe_infer(vals)
                    try:
                        sv = dt_pair(Vector(list(vals)).schema())
                    except Exception as e:
                        sv = (Raised(e), False)
                seen.setdefault((fmt(got), fmt(sv)), []).append(list(perm))
            if len(seen) > 1:
                (k1, p1), (k2, p2) = list(seen.items())[:2]
                agg.violation(V("infer_dtype.subclasses", "dtype-depends-on-element-order", {"types": list(word), "order_1": p1[0], "order_2": p2[0]}, k1, k2,
                                py="from serif import Vector\n# the same values in two orders are typed differently"))
            elif any(a != b for a, b in seen):
                agg.violation(V("infer_dtype.subclasses", "constructor-and-inference-disagree", {"types": list(word)}, None, list(seen)))
            else:
                agg.outcomes["agree-order-independent"] += 1
    # promote_with steps commute from every ladder state
    for k in (bool, int, float, complex, str, date, datetime, tuple, object):
        for nl in (False, True):
            for a, b in itertools.combinations(sorted(pool), 2):
                if a not in subs and b not in subs:
                    continue
                agg.evals += 1; agg.transitions += 4; agg.compared += 1; agg.states += 1
                with warnings.catch_warnings():
                    warnings.simplefilter("ignore")
                    try:
                        d1 = dt_pair(DataType(k, nl).promote_with(pool[a]).promote_with(pool[b]))
                        d2 = dt_pair(DataType(k, nl).promote_with(pool[b]).promote_with(pool[a]))
                    except Exception as e:
                        agg.violation(V("promote_with.subclasses", "raises-" + type(e).__name__, {"state": fmt((k, nl)), "values": [a, b]}))
                        continue
                if d1 != d2:
                    agg.violation(V("promote_with.subclasses", "promotion-steps-do-not-commute", {"state": fmt((k, nl)), "values": [a, b]}, fmt(d1), fmt(d2)))
                else:
                    agg.outcomes["agree-order-independent"] += 1
    return agg


def unit_long_words(unit):
    """'never on ... length': a long run of one symbol with ONE element of another symbol at the front, in the middle, at the end
    (run lengths around powers of two: an inference that looks at a prefix or at a sample of a long input would miss it)"""
    from serif import Vector, Table, read_csv
    from serif.typing import infer_dtype
    _, a = unit
    agg = Agg()
    for b in SYMS:
        for k in (31, 32, 33, 63, 64, 65, 127, 128, 129, 1000):
            for place in ("front", "middle", "end", "none"):
                if place == "front":
                    w = (b,) + (a,) * k
                elif place == "middle":
                    w = (a,) * (k // 2) + (b,) + (a,) * (k - k // 2)
                elif place == "end":
                    w = (a,) * k + (b,)
                else:
                    w = (a,) * k
                sp = spec_of_word(w)
                vals = word_values(w, 0)
                agg.states += 1; agg.evals += 1; agg.transitions += 2; agg.compared += 2
                if a != b and place != "none":
                    agg.nontrivial += 1
                case = {"run_of": a, "run_length": k, "odd_one": b if place != "none" else None, "place": place}
                got = safe_infer(vals)
                if not agrees(sp, got):
                    agg.violation(V("infer_dtype.long", symptom(sp, got, (a, b)), case, fmt(sp), fmt(got)))
                    continue
                try:
                    s = Vector(vals).schema()
                    t = Table({"c": list(vals), "d": list(range(len(vals)))}).cols(0).schema()
                except Exception as e:
                    agg.violation(V("Vector.schema.long", "constructor-raises-" + type(e).__name__, case))
                    continue
                if s is None or not agrees(sp, dt_pair(s)) or t is None or not agrees(sp, dt_pair(t)):
                    agg.violation(V("Vector.schema.long", symptom(sp, dt_pair(s), (a, b)) if s is not None else "no-schema", case, fmt(sp), fmt(dt_pair(s)) if s is not None else None))
                else:
                    agg.outcomes["long-agree"] += 1
    # CSV columns: a long run of one cell text and one deviating cell
    if a in ("int", "float", "str", "None"):
        texts = {"int": "7", "float": "2.5", "str": "x", "None": ""}
        for b in texts:
            for k in (31, 32, 33, 64, 65, 129):
                for place in ("front", "middle", "end"):
                    cells = [texts[a]] * k
                    cells.insert({"front": 0, "middle": k // 2, "end": k}[place], texts[b])
                    text = "h,g\n" + "".join(f"{c},1\n" for c in cells)
                    agg.evals += 1; agg.transitions += 1; agg.states += 1
                    try:
                        res = read_csv(io.StringIO(text))
                    except Exception as e:
                        agg.violation(V("read_csv.long", "raises-" + type(e).__name__, {"run_of": a, "run_length": k, "odd_one": b, "place": place}))
                        continue
                    check_col(agg, "read_csv.long", res._underlying[0], {"part": "csv-long", "run_of": texts[a], "run_length": k, "odd_one": texts[b], "place": place})
    return agg


# --------------------------------------------------------------------------------------
# Part T: result columns typed by the same rule
# --------------------------------------------------------------------------------------

def check_col(agg, site, col, case):
    vals = list(col._underlying)
    agg.compared += 1
    s = col.schema()
    want = expected_dtype(vals)
    if s is None:
        if vals:
            agg.violation(V(site, "no-schema", case, fmt(want), None))
        return
    got = dt_pair(s)
    if want[0] is None:
        okk = (got[1] or not want[1])
    else:
        okk = got == want
    if not okk:
        lead = bool(vals) and vals[0] is None
        sym = "leading-none-degrades-to-object" if (lead and got[0] is object and want[0] is not object) else \
              (f"expected-{kname(want[0])}-got-{kname(got[0])}" if want[0] is not got[0] and want[0] is not None else f"nullable-{want[1]}-got-{got[1]}")
        agg.violation(V(site, sym, dict(case, values=vals), fmt(want), fmt(got)))
        agg.outcomes["T-mismatch"] += 1
    else:
        agg.outcomes["T-agree"] += 1


OPS = ["add", "sub", "mul", "truediv", "floordiv", "mod", "pow"]


def unit_typed(unit):
    import operator
    from serif import Vector, Table, read_csv
    agg = Agg()
    what = unit[0]
    if what == "arith":
        kinds = {
            "bool": [True, False], "int": [1, -2], "float": [0.5, 2.0], "complex": [1j, 2 + 0j],
        }
        names = list(kinds)
        opn = unit[1]
        op = getattr(operator, opn)
        for ka in names:
            for kb in names:
                for none_pos in (None, 0, 1):
                    a = list(kinds[ka]); b = list(kinds[kb])
                    if none_pos is not None:
                        a[none_pos] = None
                    for form, prov in [(f, "fresh") for f in ("vv", "vs", "sv", "vl", "lv")] + \
                                      ([(f, pv) for f in ("vv", "vs", "sv", "vl") for pv in ("none-written-then-overwritten", "none-sliced-away", "row-of-a-table")]
                                       if none_pos is None else []):
                        case = {"part": "arith", "op": opn, "left": a, "right": b, "form": form, "left_operand_history": prov}

                        def Vector(vals, _V=Vector, prov=prov, a=a):
                            """the LEFT operand with a history: its dtype was nullable at some point, its values hold no None (any more)"""
                            if vals is not a or prov == "fresh":
                                return _V(vals)
                            if prov == "none-written-then-overwritten":
                                v = _V(list(vals)); v[0] = None; v[0] = vals[0]
                                return v
                            if prov == "none-sliced-away":
                                return _V([None] + list(vals))[1:]
                            # a row of an all-same-kind table in which ANOTHER row holds a None
                            from serif import Table as _T
                            return _T([_V([x, None]) for x in vals])[0]
                        # only values for which Python itself defines the scalar operation
                        try:
                            for x, y in zip(a, b if form in ("vv", "vl", "lv") else [b[0]] * len(a)):
                                if x is not None and y is not None:
                                    op(y, x) if form in ("sv", "lv") else op(x, y)
                        except Exception:
                            agg.skipped["python-scalar-op-raises"] += 1
                            continue
                        try:
                            if form == "vv":
                                r = op(Vector(a), Vector(b))
                            elif form == "vs":
                                r = op(Vector(a), b[0])
                            elif form == "sv":
                                r = op(b[0], Vector(a))
                            elif form == "vl":
                                r = op(Vector(a), list(b))
                            else:
                                r = op(list(b), Vector(a))
                        except Exception:
                            agg.skipped["arith-raises"] += 1
                            continue
                        agg.evals += 1
                        agg.transitions += 1
                        agg.states += 1
                        if ka != kb:
                            agg.nontrivial += 1
                        if type(r).__name__ == "Table" or not hasattr(r, "_underlying"):
                            agg.skipped["arith-non-vector-result"] += 1
                            continue
                        check_col(agg, f"arith.{form}", r, case)
    elif what == "concat":
        # `<<` results are typed by the rule applied to their values: left operands of every ladder kind, fresh or with a history
        # (a None written in place, a None sliced away), right operands as Vector / list / scalar of every kind with and without None
        from datetime import date as _d, datetime as _dt
        kinds = {"bool": [True, False], "int": [1, -2], "float": [0.5, 2.0], "complex": [1j, 2 + 0j], "str": ["a", "b"], "date": [_d(2020, 1, 1), _d(2020, 1, 2)],
                 "datetime": [_dt(2020, 1, 1, 3), _dt(2020, 1, 2, 4)]}
        for ka in kinds:
            for kb in kinds:
                for lhist in ("fresh", "none-inside", "none-written-in-place", "none-written-then-overwritten", "none-sliced-away"):
                    for rnone in (False, True):
                        for form in ("vector", "list", "scalar", "vector-of-one"):
                            a = list(kinds[ka]); b = list(kinds[kb])
                            if rnone:
                                if form == "scalar":
                                    continue
                                b[0] = None

                            def left():
                                if lhist == "fresh":
                                    return Vector(list(a))
                                if lhist == "none-inside":
                                    return Vector([a[0], None])
                                v = Vector(list(a))
                                if lhist == "none-written-in-place":
                                    v[1] = None
                                elif lhist == "none-written-then-overwritten":
                                    v[1] = None; v[1] = a[1]
                                else:
                                    v = Vector([None] + list(a))[1:]
                                return v
                            case = {"part": "concat", "left_kind": ka, "left_history": lhist, "right_kind": kb, "right_holds_none": rnone, "right_form": form}
                            try:
                                l = left()
                                r = l << (Vector(list(b)) if form == "vector" else (list(b) if form == "list" else (b[1] if form == "scalar" else Vector([b[1]]))))
                            except Exception:
                                agg.skipped["concat-raises"] += 1
                                continue
                            agg.evals += 1; agg.transitions += 1; agg.states += 1
                            if ka != kb or rnone or lhist != "fresh":
                                agg.nontrivial += 1
                            if type(r).__name__ == "Table" or not hasattr(r, "_underlying"):
                                agg.skipped["concat-non-vector-result"] += 1
                                continue
                            if lhist in ("none-written-then-overwritten", "none-sliced-away") and not any(x is None for x in r._underlying):
                                # a nullable flag left behind by the history may legitimately survive: only kind is judged then
                                s_ = r.schema()
                                want = expected_dtype(list(r._underlying))
                                agg.compared += 1
                                if s_ is None or (want[0] is not None and s_.kind is not want[0]):
                                    agg.violation(V("concat." + form, f"expected-{fmt((want[0], False))}-got-{fmt((s_.kind, False)) if s_ is not None else None}", dict(case, values=list(r._underlying)), fmt(want), None if s_ is None else fmt(dt_pair(s_))))
                                else:
                                    agg.outcomes["T-agree"] += 1
                                continue
                            check_col(agg, "concat." + form, r, case)
    elif what == "join":
        keysets = [[1], [2], [1, 2], [2, 1], [1, 1], [2, 3], [3, 1]]
        pay = {"int": [10, 20], "float": [0.5, 1.5], "str": ["x", "y"], "bool": [True, False],
               "int-then-None": [10, None], "None-then-int": [None, 20], "int-then-float": [10, 0.5], "float-then-int": [0.5, 20],
               "bool-then-int": [True, 7]}      # the second (possibly unmatched) row is the only carrier of the None / wider kind
        for lk in keysets:
            for rk in keysets:
                for pk, pv in pay.items():
                  for hist in ("fresh", "to_object", "wider-dtype-narrow-values", "none-row-sliced-away"):
                    # the SOURCE column's dtype may be wider than its values (history): the result is typed by its own values
                    try:
                        lp = Vector(list(pv[:len(lk)]), name="lp")
                        if hist == "to_object":
                            lp = lp.to_object(); lp.name = "lp"
                        elif hist == "wider-dtype-narrow-values":
                            if not all(type(x) is int for x in pv[:len(lk)]):
                                continue
                            lp = Vector([0.5] * len(lk), name="lp")
                            for i_, x_ in enumerate(pv[:len(lk)]):
                                lp[i_] = x_
                        L = Table([Vector(list(lk), name="k"), lp])
                        if hist == "none-row-sliced-away":
                            L = Table([Vector(list(lk) + [None], name="k"), Vector(list(pv[:len(lk)]) + [None], name="lp")])[0:len(lk)]
                        R = Table({"k2": rk, "rp": pv[:len(rk)]})
                    except Exception as e:
                        agg.violation(V("Table.construct", "raises-" + type(e).__name__, {"keys": lk, "payload": pk, "history": hist}))
                        continue
                    for meth in ("inner_join", "join", "full_join"):
                        case = {"part": "join", "method": meth, "left_keys": lk, "right_keys": rk, "payload": pk, "left_table_history": hist}
                        try:
                            res = getattr(L, meth)(R, "k", "k2", expect="many_to_many")
                        except Exception as e:
                            agg.violation(V(f"join.{meth}", "raises-" + type(e).__name__, case))
                            continue
                        agg.evals += 1
                        agg.transitions += 1
                        agg.states += 1
                        agg.nontrivial += 1
                        for c in res._underlying:
                            check_col(agg, f"join.{meth}", c, case)
    elif what == "agg":
        vals_menu = [[1, 2, 3], [None, 2, 3], [None, None, 3], [0.5, None, 1.5], [None, 1.5, None], [1, None, None],
                     # kinds whose mean is not a float: the result columns are typed by their own values
                     [1j, 2 + 0j, 3j], [Fraction(1, 2), Fraction(1, 3), None], [Decimal("1.5"), Decimal("2.5"), Decimal("3")], [True, False, True]]
        keys_menu = [["a", "a", "b"], ["a", "b", "b"], ["a", "b", "c"], ["a", "b", "a"]]
        for vals in vals_menu:
            for keys in keys_menu:
                try:
                    t = Table({"k": keys, "v": vals})
                except Exception as e:
                    agg.violation(V("Table.construct", "raises-" + type(e).__name__, {"keys": keys, "values": vals}))
                    continue
                for meth in ("aggregate", "window"):
                    case = {"part": meth, "keys": keys, "values": vals}
                    kw = dict(sum_over="v", mean_over="v", min_over="v", max_over="v", count_over="v", stdev_over="v")
                    if any(isinstance(x, (complex, Fraction, Decimal)) for x in vals):
                        kw = dict(sum_over="v", mean_over="v", count_over="v")        # no order / no sqrt for these in Python itself
                    try:
                        res = getattr(t, meth)(over="k", **kw)
                    except Exception as e:
                        if any(isinstance(x, (complex, Fraction, Decimal)) for x in vals):
                            agg.skipped["aggregate-of-uncommon-number-kind-refused"] += 1
                            continue
                        agg.violation(V(f"{meth}", "raises-" + type(e).__name__, case))
                        continue
                    agg.evals += 1
                    agg.transitions += 1
                    agg.states += 1
                    agg.nontrivial += 1
                    for c in res._underlying:
                        check_col(agg, meth, c, case)
    elif what == "assign":
        # "promoting a dtype with a value never narrows it, never drops nullability": the same for a VECTOR promoted by an in-place write
        from datetime import date as _d, datetime as _dt
        D0, T0 = _d(2020, 1, 2), _dt(2021, 3, 4, 5, 6)
        ladder = [("bool", [True, False, True]), ("int", [1, 2, 3]), ("float", [0.5, 1.5, 2.5]), ("complex", [1j, 2j, 3j]), ("date", [D0, D0, D0]), ("datetime", [T0, T0, T0])]
        wider = {"int": [2.5, 1j], "float": [1j], "date": [T0], "bool": [], "complex": [], "datetime": []}
        # values that do NOT belong to the column's kind and are not a wider kind either (text that looks like the kind, a number
        # for a date ...): the write is refused, or - if it is accepted - the dtype accommodates what is stored
        foreign = {"int": ["7", b"7"], "float": ["2.5"], "date": ["2020-03-01", 737000], "datetime": ["2021-03-04T05:06:00"], "bool": ["True"], "complex": ["1j"]}
        for kname, base in ladder:
            for w in foreign[kname]:
                for key_form in ("int", "slice", "table-cell", "fillna"):
                    vals = list(base)
                    if key_form == "fillna":
                        vals[1] = None
                    agg.evals += 1; agg.transitions += 1; agg.states += 1; agg.nontrivial += 1; agg.compared += 1
                    case = {"part": "assign-foreign", "column": [repr(x) for x in vals], "key_form": key_form, "written": repr(w)}
                    try:
                        v = Vector(list(vals)); t = None
                        if key_form == "int":
                            v[1] = w
                        elif key_form == "slice":
                            v[0:1] = [w]
                        elif key_form == "table-cell":
                            t = Table([Vector(list(vals), name="a"), Vector([7, 8, 9], name="b")])
                            t[1, "a"] = w
                            v = t["a"]
                        else:
                            v = v.fillna(w)
                    except Exception:
                        agg.outcomes["T-agree"] += 1          # refused: fine
                        continue
                    cur = list(v._underlying)
                    want = expected_dtype(cur)
                    sc_ = v.schema()
                    if sc_ is None or (want[0] is not None and sc_.kind is not want[0] and sc_.kind is not object):
                        agg.violation(V("setitem.foreign-value", "accepted-value-not-accommodated-by-the-dtype", case, fmt(want), fmt(dt_pair(sc_)) if sc_ is not None else None))
                    else:
                        agg.outcomes["T-agree"] += 1
        for kname, base in ladder:
            for w in wider[kname] + [None]:
                for none_pos in (None, 0, 2):
                    for hist in ("as-built", "none-overwritten-first"):
                        for key_form in ("int", "slice", "mask", "index-list", "table-cell", "column-view"):
                            for with_none_value in (False, True):
                                vals = list(base)
                                if none_pos is not None:
                                    vals[none_pos] = None
                                if w is None and not with_none_value:
                                    continue
                                try:
                                    v = Vector(list(vals)); t = None
                                    if key_form in ("table-cell", "column-view"):
                                        t = Table([Vector(list(vals), name="a"), Vector([7, 8, 9], name="b")])
                                        v = t["a"]
                                    if hist == "none-overwritten-first" and none_pos is not None:
                                        v[none_pos] = base[none_pos]          # the column's only None is gone; the flag stays
                                    before = v.schema()
                                    newvals = ([w, None] if with_none_value else [w, w]) if w is not None else [None, None]
                                    if key_form == "int":
                                        v[1] = newvals[0]
                                    elif key_form == "slice":
                                        v[0:2] = newvals[::-1]
                                    elif key_form == "mask":
                                        v[[True, True, False]] = newvals
                                    elif key_form == "index-list":
                                        v[[1, 0]] = newvals
                                    elif key_form == "table-cell":
                                        t[1, "a"] = newvals[0]
                                        v = t["a"]
                                    else:
                                        v[1] = newvals[0]
                                        v = t["a"]
                                except Exception as e:
                                    agg.skipped["write-refused-" + type(e).__name__] += 1
                                    continue
                                agg.evals += 1; agg.transitions += 1; agg.states += 1; agg.nontrivial += 1; agg.compared += 1
                                after = v.schema()
                                cur = list(v._underlying)
                                want_kind = join_kinds([before.kind] + ([type(w)] if w is not None else []))
                                want_null = bool(before.nullable) or any(x is None for x in cur)
                                case = {"part": "assign", "column": vals, "history": hist, "key_form": key_form, "written": [repr(x) for x in newvals[:1 if key_form in ("int", "table-cell", "column-view") else 2]],
                                        "dtype_before": fmt(dt_pair(before)), "values_after": [repr(x) for x in cur]}
                                if after is None or after.kind is not want_kind:
                                    agg.violation(V("setitem.promotion", "kind-after-promotion-wrong", case, fmt((want_kind, want_null)), fmt(dt_pair(after)) if after is not None else None))
                                elif bool(after.nullable) != want_null:
                                    agg.violation(V("setitem.promotion", "promotion-drops-nullability" if want_null else "nullable-without-reason", case, fmt((want_kind, want_null)), fmt(dt_pair(after))))
                                else:
                                    agg.outcomes["T-agree"] += 1
    elif what == "csv":
        cells = ["", "1", "2.5", "x", " "]
        for n in (1, 2, 3):
            for col in itertools.product(cells, repeat=n):
                text = "h,g\n" + "".join(f"{c},7\n" for c in col)
                case = {"part": "csv", "text": text}
                try:
                    res = read_csv(io.StringIO(text))
                except Exception as e:
                    agg.violation(V("read_csv", "raises-" + type(e).__name__, case))
                    continue
                agg.evals += 1
                agg.transitions += 1
                agg.states += 1
                if len(set(col)) > 1:
                    agg.nontrivial += 1
                for c in res._underlying:
                    check_col(agg, "read_csv", c, case)
        # jagged files: records shorter than the header (the missing cells are None like empty ones), a blank line between records,
        # header-less input with ragged records - every column is typed by the ordinary rule applied to the cells it ends up with
        for n in (1, 2, 3):
            for col in itertools.product(["1", "2.5", "x"], repeat=n):
                for short in range(n):
                    for layout in ("short-record", "short-record-no-header", "blank-line"):
                        recs = [f"{c},7,8" for c in col]
                        if layout == "blank-line":
                            recs.insert(short, "")
                        else:
                            recs[short] = f"{col[short]},7"
                        text = ("" if layout == "short-record-no-header" else "h,g,f\n") + "".join(r + "\n" for r in recs)
                        case = {"part": "csv-jagged", "layout": layout, "text": text}
                        try:
                            res = read_csv(io.StringIO(text), has_header=(layout != "short-record-no-header"))
                        except Exception as e:
                            agg.skipped["jagged-csv-refused-" + type(e).__name__] += 1
                            continue
                        agg.evals += 1; agg.transitions += 1; agg.states += 1; agg.nontrivial += 1
                        for c in res._underlying:
                            check_col(agg, "read_csv.jagged", c, case)
        # "never on element order": every ordering of the same cells gives the same column dtype
        for n in (2, 3):
            for combo in itertools.combinations_with_replacement(cells + ["7", "n/a", "-"], n):
                seen = {}
                for perm in set(itertools.permutations(combo)):
                    text = "h,g\n" + "".join(f"{c},7\n" for c in perm)
                    try:
                        col = read_csv(io.StringIO(text))._underlying[0]
                        seen[perm] = (dt_pair(col.schema()) if col.schema() is not None else None, sorted(type(x).__name__ for x in col._underlying))
                    except Exception as e:
                        seen[perm] = ("raises", type(e).__name__)
                agg.evals += 1; agg.transitions += len(seen); agg.states += 1; agg.compared += 1
                if len({repr(v) for v in seen.values()}) > 1:
                    agg.violation(V("read_csv.order", "column-typing-depends-on-row-order", {"part": "csv-permutations", "cells": list(combo)}, None, {" | ".join(k): repr(v) for k, v in list(seen.items())[:4]}))
                else:
                    agg.outcomes["T-agree"] += 1
    return agg


def check(ctx):
    agg = Agg()
    r = core.guarded(engine_a, agg)
    if isinstance(r, Agg):
        agg.merge(r)
    maxlen = ctx.pick(5, 6)
    units = [((a, b), maxlen) for a in SYMS for b in SYMS] + [((a,), 1) for a in SYMS] + [((), 0)]
    parts = core.pmap(unit_words, units)
    tunits = [("arith", o) for o in OPS] + [("join",), ("agg",), ("csv",), ("assign",), ("concat",)]
    parts += core.pmap(unit_typed, tunits)
    parts += core.pmap(unit_long_words, [("long", a) for a in SYMS])
    parts += core.pmap(unit_subclasses, [("subclasses",)])
    for p in parts:
        agg.merge(p)
    agg.notes["bound"] = f"automaton: all DataType states x {len(SYMS)} symbols x {len(SYMS)} symbols; words: every word of length <= {maxlen} x 2 representatives"
    agg.notes["exhaustive"] = True
    return agg


def coverage_goals(ctx, agg):
    bad = []
    if agg.notes.get("product_states", 0) < 20:
        bad.append("product automaton too small")
    if agg.states < 500000:
        bad.append("fewer words than expected")
    if agg.outcomes.get("T-agree", 0) < 500:
        bad.append("typed-result part vacuous")
    return bad


def replay(rec):
    """Re-execute one recorded case; return the set of signatures observed."""
    from serif.typing import infer_dtype
    case = rec.get("case") or {}
    agg = Agg()
    if "word" in case and rec["site"] in ("infer_dtype", "Vector.schema"):
        w = tuple(case["word"])
        sp = spec_of_word(w)
        from serif import Vector
        for rep in (0, 1):
            vals = word_values(w, rep)
            got = safe_infer(vals)
            if not agrees(sp, got):
                agg.violation(V("infer_dtype", symptom(sp, got, w)))
            s = Vector(vals).schema()
            if s is None or not agrees(sp, dt_pair(s)):
                agg.violation(V("Vector.schema", symptom(sp, dt_pair(s), w) if s else "no-schema"))
        return set(agg.viol)
    return None
