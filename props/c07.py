"""C07 — masks and indexing follow Python sequence semantics and compose (Engine E)."""
from __future__ import annotations

import itertools
import operator

from mc import core
from mc.core import Agg, V
from mc.models import canon_elem, same_list, schema_of

RULE = ("every vector of length 0..N over 4 element kinds (named/unnamed) x every int index in [-n-2,n+1] x every slice with "
        "start,stop in {None}U[-n-2,n+2], step in {None,+-1,+-2,+-3} x every boolean mask of length n-1,n,n+1 (list and Vector) x index lists; "
        "every table rows<=R x cols<=3 x row keys x column-name tuples (commutation); comparison/logical operators on all vector pairs<=L. "
        "non-trivial = selection that is neither empty nor the identity, or a comparison with mixed outcomes")
ASSUMPTIONS = ["empty list key [] is ambiguous (mask vs index list) and not judged for n>0",
               "date-vs-ISO-string comparison convenience path is outside the alphabet",
               "column keys are exact stored names or a name that matches nothing; case-insensitive/sanitised lookups are C17's subject"]

NAN = float("nan")
KINDS = {
    "int": [10, 11, 12, 13, 14, 15, 16, 17],
    "str": ["a", "b", "c", "d", "e", "f", "g", "h"],
    "float": [0.5, NAN, 2.5, -0.0, 4.5, 5.5, 6.5, 7.5],
    "int?": [10, None, 12, None, 14, 15, None, 17],
    "object": [1, "a", 2, "b", 3, None, 4.5, "c"],        # a mixed vector: selections keep the object kind even when what they keep is of one type
}
CMP = {"eq": operator.eq, "ne": operator.ne, "lt": operator.lt, "le": operator.le, "gt": operator.gt, "ge": operator.ge}
LOGIC = {"and": operator.and_, "or": operator.or_, "xor": operator.xor}


def lst(values):
    return [canon_elem(e) for e in values]


def describe(kind, n, name):
    return {"kind": kind, "values": KINDS[kind][:n], "name": name}


def mk(Vector, kind, n, name):
    return Vector(list(KINDS[kind][:n]), name=name)


def check_result(agg, site, src, res, want, case, py=None):
    """res must be a new Vector holding exactly `want`, same name, same dtype kind."""
    agg.compared += 1
    if res is src:
        agg.violation(V(site, "returns-self", case, "new object", "same object", py))
        return
    try:
        got = list(res._underlying)
    except Exception:
        agg.violation(V(site, "result-not-a-vector", case, want, repr(res)[:80], py))
        return
    if not same_list(got, want):
        if len(want) == 0 and same_list(got, list(src._underlying)) and len(got) > 0:
            sym = "empty-selection-returns-whole"
        elif len(got) != len(want):
            sym = "wrong-length"
        elif sorted(lst(got)) == sorted(lst(want)):
            sym = "wrong-order"
        else:
            sym = "wrong-values"
        agg.violation(V(site, sym, case, want, got, py))
        return
    if res._name != src._name:
        agg.violation(V(site, "name-not-kept", case, src._name, res._name, py))
    s0, s1 = schema_of(src), schema_of(res)
    if s0 is not None and (s1 is None or s1[0] != s0[0]):
        agg.violation(V(site, "dtype-kind-not-kept", case, s0, s1, py))


def slice_box(n):
    rng = [None] + list(range(-n - 2, n + 3))
    for a in rng:
        for b in rng:
            for st in (None, 1, 2, 3, -1, -2, -3):
                yield slice(a, b, st)


def unit_vector_long(unit):
    """size thresholds for indexing: vectors of 17 / 33 / 65 / 129 elements - every integer index, slices over a grid of
    start / stop / step values around the ends and the middle, masks and index vectors of designated patterns; tables of the
    same heights with the same row keys (rows and columns must still commute)"""
    from serif import Vector, Table
    _, kind = unit
    agg = Agg()
    for n in (17, 33, 65, 129):
        vals = [None if (kind == "int?" and i % 7 == 3) else KINDS[kind.rstrip("?")][i % 6] if kind != "int" else 1000 + i for i in range(n)]
        if kind == "str":
            vals = [f"s{i}" for i in range(n)]
        v = Vector(list(vals), name="nm")
        t = Table([Vector(list(vals), name="a"), Vector(list(range(n)), name="b")])
        case0 = {"family": "long vectors", "kind": kind, "len": n}
        for i in list(range(-n - 2, n + 2)):
            agg.evals += 1; agg.transitions += 1; agg.compared += 1
            try:
                got = v[i]
                ok_ = -n <= i < n and same_list([got], [vals[i]])
            except Exception:
                ok_ = not (-n <= i < n)
            if not ok_:
                agg.violation(V("vector.getitem.int.long", "wrong-element-or-out-of-range-accepted", dict(case0, key=i)))
            else:
                agg.outcomes["int-ok"] += 1
        edge = [None, 0, 1, 2, n // 2 - 1, n // 2, n - 2, n - 1, n, n + 5, -1, -2, -n // 2, -n + 1, -n, -n - 3]
        for a in edge:
            for b in edge:
                for st in (None, 1, 2, 3, 7, -1, -2, -5, n, -n):
                    sl = slice(a, b, st)
                    want = list(vals)[sl]
                    agg.evals += 1; agg.transitions += 2; agg.states += 1
                    if want and len(want) < n:
                        agg.nontrivial += 1
                    case = dict(case0, key=[a, b, st])
                    try:
                        check_result(agg, "vector.getitem.slice.long", v, v[sl], want, case)
                        tr = t[sl]
                        agg.compared += 1
                        if not same_list(list(tr._underlying[0]._underlying), want) or list(tr._underlying[1]._underlying) != list(range(n))[sl]:
                            agg.violation(V("table.getitem.rows.long", "wrong-cells", case))
                        else:
                            agg.outcomes["slice-forward" if (st or 1) > 0 else "slice-reversed"] += 1
                    except Exception as e:
                        agg.violation(V("vector.getitem.slice.long", "raises-" + type(e).__name__, case, want[:10], repr(e)[:80]))
        masks_ = {"every-2nd": [i % 2 == 0 for i in range(n)], "first-half": [i < n // 2 for i in range(n)], "last-only": [i == n - 1 for i in range(n)],
                  "none": [False] * n, "all": [True] * n, "every-7th": [i % 7 == 6 for i in range(n)]}
        for mname, bits in masks_.items():
            want = [x for x, b in zip(vals, bits) if b]
            for form in ("list", "vector"):
                agg.evals += 1; agg.transitions += 2; agg.states += 1; agg.nontrivial += 1
                case = dict(case0, mask=mname, form=form)
                key = list(bits) if form == "list" else Vector(list(bits))
                try:
                    check_result(agg, "vector.getitem.mask.long", v, v[key], want, case)
                    tr = t[key]
                    agg.compared += 1
                    if not same_list(list(tr._underlying[0]._underlying), want):
                        agg.violation(V("table.getitem.rows.long", "wrong-cells", case))
                    else:
                        agg.outcomes["mask-ok"] += 1
                except Exception as e:
                    agg.violation(V("vector.getitem.mask.long", "raises-" + type(e).__name__, case, None, repr(e)[:80]))
            for wrong in (bits[:-1], bits + [True]):
                agg.evals += 1; agg.compared += 1
                try:
                    r = v[list(wrong)]
                    agg.violation(V("vector.getitem.mask.long", "wrong-length-mask-accepted", dict(case0, mask=mname, mask_len=len(wrong)), "error", len(r._underlying)))
                except Exception:
                    agg.outcomes["mask-wrong-length"] += 1
        for iname, idx in {"reversed": list(range(n - 1, -1, -1)), "ends": [0, n - 1, -1, -n, n // 2], "repeats": [n - 1] * 3 + [0] * 2, "every-3rd": list(range(0, n, 3))}.items():
            want = [vals[i] for i in idx]
            agg.evals += 1; agg.transitions += 1; agg.states += 1; agg.nontrivial += 1
            case = dict(case0, index_vector=iname)
            try:
                check_result(agg, "vector.getitem.indexlist.long", v, v[Vector(list(idx))], want, case)
                agg.outcomes["indexlist-ok"] += 1
            except Exception as e:
                agg.violation(V("vector.getitem.indexlist.long", "raises-" + type(e).__name__, case, None, repr(e)[:80]))
        # comparisons on long vectors: elementwise, non-nullable bool
        for opn, op in CMP.items():
            other = list(vals[1:]) + [vals[0]]
            if _python_raises(op, vals, other):
                continue
            agg.evals += 2; agg.transitions += 2
            try:
                check_bool_result(agg, f"compare.{opn}.long", op(Vector(list(vals)), Vector(list(other))), expected_cmp(op, vals, other), dict(case0, op=opn, form="vv"))
                pivot = next(x for x in vals if x is not None)
                check_bool_result(agg, f"compare.{opn}.long", op(Vector(list(vals)), pivot), expected_cmp(op, vals, [pivot] * n), dict(case0, op=opn, form="vs"))
                agg.outcomes["cmp-ok"] += 1
            except Exception as e:
                agg.violation(V(f"compare.{opn}.long", "raises-" + type(e).__name__, dict(case0, op=opn), None, repr(e)[:80]))
    agg.sample({"family": "long vectors", "kind": kind})
    return agg


def unit_vector(unit):
    from serif import Vector
    _, kind, n = unit
    agg = Agg()
    for name in (None, "nm"):
        base = list(KINDS[kind][:n])
        d = describe(kind, n, name)
        # ---- integer index
        v = mk(Vector, kind, n, name)
        for i in range(-n - 2, n + 2):
            agg.evals += 1; agg.transitions += 1; agg.states += 1
            case = dict(d, key=i)
            try:
                want = base[i]
            except IndexError:
                want = IndexError
            try:
                got = v[i]
            except Exception as e:
                got = e
            agg.compared += 1
            if want is IndexError:
                agg.outcomes["int-out-of-range"] += 1
                if not isinstance(got, Exception):
                    agg.violation(V("vector.getitem.int", "out-of-range-accepted", case, "IndexError", got))
            else:
                agg.nontrivial += 1
                agg.outcomes["int-ok"] += 1
                if isinstance(got, Exception) or canon_elem(got) != canon_elem(want):
                    agg.violation(V("vector.getitem.int", "wrong-element", case, want, repr(got)))
        # ---- slices (the operand is built through a different route for every key: provenance round-robin)
        from mc import provenance
        for si, sl in enumerate(slice_box(n)):
            agg.evals += 1; agg.transitions += 1; agg.states += 1
            route, v = provenance.vector_variant(base, name, si)
            want = base[sl]
            case = dict(d, key=[sl.start, sl.stop, sl.step], route=route)
            py = f"from serif import Vector\nv = Vector({base!r}, name={name!r})\nprint(list(v[{sl.start}:{sl.stop}:{sl.step}]), 'expected', {want!r})"
            try:
                res = v[sl]
            except Exception as e:
                agg.violation(V("vector.getitem.slice", "raises-" + type(e).__name__, case, want, None, py))
                continue
            if 0 < len(want) < n:
                agg.nontrivial += 1
            agg.outcomes["slice-empty" if not want else ("slice-reversed" if (sl.step or 1) < 0 else "slice-forward")] += 1
            check_result(agg, "vector.getitem.slice", v, res, want, case, py)
        # source untouched by all of that
        if not same_list(list(v._underlying), base) or v._name != name:
            agg.violation(V("vector.getitem", "operand-modified", d))
        v = mk(Vector, kind, n, name)
        # ---- masks
        for m in (n - 1, n, n + 1):
            if m < 0:
                continue
            for bits in itertools.product([False, True], repeat=m):
                for form in ("list", "vector"):
                    if m == 0 and form == "list" :
                        agg.skipped["ambiguous-empty-list-key"] += 1
                        continue
                    agg.evals += 1; agg.transitions += 1; agg.states += 1
                    key = list(bits) if form == "list" else Vector(list(bits), dtype=bool)
                    case = dict(d, mask=list(bits), form=form)
                    mi = mi + 1 if "mi" in dir() else 0
                    route, vv = provenance.vector_variant(base, name, mi)
                    try:
                        res = vv[key]
                    except Exception as e:
                        res = e
                    v = vv
                    if m != n:
                        agg.compared += 1
                        agg.outcomes["mask-wrong-length"] += 1
                        if not isinstance(res, Exception):
                            agg.violation(V("vector.getitem.mask", "wrong-length-mask-accepted", case, "error",
                                            list(res._underlying) if hasattr(res, "_underlying") else repr(res)))
                        continue
                    want = [x for x, b in zip(base, bits) if b]
                    if isinstance(res, Exception):
                        agg.violation(V("vector.getitem.mask", "raises-" + type(res).__name__, case, want, None))
                        continue
                    if 0 < len(want) < n:
                        agg.nontrivial += 1
                    agg.outcomes["mask-ok"] += 1
                    check_result(agg, "vector.getitem.mask", v, res, want, case)
        # ---- index lists / index vectors
        idxs = list(range(-n, n))
        for L in (1, 2, 3):
            for tup in itertools.product(idxs, repeat=L):
                if L == 3 and len(set(tup)) == 3 and tup != tuple(sorted(tup)):
                    continue
                for form in ("list", "vector"):
                    agg.evals += 1; agg.transitions += 1; agg.states += 1
                    key = list(tup) if form == "list" else Vector(list(tup))
                    want = [base[i] for i in tup]
                    case = dict(d, index=list(tup), form=form)
                    try:
                        res = v[key]
                    except Exception as e:
                        agg.violation(V("vector.getitem.indexlist", "raises-" + type(e).__name__, case, want, None))
                        continue
                    agg.outcomes["indexlist-ok"] += 1
                    check_result(agg, "vector.getitem.indexlist", v, res, want, case)
    agg.sample({"vector": describe(kind, n, "nm"), "keys": "all ints, slices, masks, index lists"})
    return agg


# --------------------------------------------------------------------------------------
# comparison and logical operators
# --------------------------------------------------------------------------------------

CMP_ALPHA = {
    "int": [0, 1, -2],
    "float": [0.5, NAN, -1.5],
    "str": ["a", "B", ""],
    "bool": [True, False],
    "int?": [1, None, 3],
    "mixed-num": [1, 1.0, True],
    "hash-equal": [-1, -2, 0],          # hash(-1) == hash(-2): content shortcuts keyed on hashes must not be trusted
}


def expected_cmp(op, xs, ys):
    return [False if (x is None or y is None) else bool(op(x, y)) for x, y in zip(xs, ys)]


def check_bool_result(agg, site, res, want, case, py=None):
    agg.compared += 1
    if type(res).__name__ == "Table" or not hasattr(res, "_underlying"):
        agg.violation(V(site, "result-not-a-vector", case, want, repr(res)[:60], py))
        return
    got = list(res._underlying)
    if not same_list(got, want):
        agg.violation(V(site, "wrong-values" if len(got) == len(want) else "wrong-length", case, want, got, py))
        return
    if schema_of(res) != ("bool", False):
        agg.violation(V(site, "not-nonnullable-bool", case, ("bool", False), schema_of(res), py))


def unit_compare(unit):
    from serif import Vector
    _, kind, maxlen = unit
    agg = Agg()
    alpha = CMP_ALPHA[kind]
    ops = dict(CMP)
    if kind == "bool":
        ops.update(LOGIC)
    # ---- zero-length operands, reached the way programs reach them (a filter that selects nothing, an empty slice, a typed empty
    # vector): the result is still a non-nullable bool vector - and usable as a mask on the empty operand
    seed = [x for x in alpha if x is not None][:2]
    empties = [("filtered-to-nothing", lambda: Vector(list(seed))[[False] * len(seed)]), ("empty-slice", lambda: Vector(list(seed))[0:0]),
               ("typed-empty", lambda: Vector([], dtype=type(seed[0])))]
    for (ln, mk_l), (rn, mk_r) in itertools.product(empties, repeat=2):
        for opn, op in list(ops.items()) + ([] if kind == "bool" else []):
            for form in ("vv", "vl", "vs", "chain"):
                case = {"op": opn, "left": ln, "right": rn if form in ("vv", "chain") else form, "form": form, "kind": kind}
                agg.evals += 1; agg.transitions += 1; agg.states += 1
                try:
                    l = mk_l()
                    if form == "vv":
                        res = op(l, mk_r())
                    elif form == "vl":
                        res = op(l, [])
                    elif form == "vs":
                        res = op(l, seed[0])
                    else:
                        # (l op r) & (l op r), then used as a mask: t0[cond]
                        res = (op(l, mk_r())) & (op(mk_r(), l))
                    picked = l[res]
                except Exception as e:
                    if _python_raises(op, seed, seed):
                        agg.skipped["python-raises"] += 1
                        continue
                    agg.violation(V(f"compare.{opn}.empty", "raises-" + type(e).__name__, case, [], repr(e)[:80]))
                    continue
                check_bool_result(agg, f"compare.{opn}.empty", res, [], case)
                if list(picked._underlying) != []:
                    agg.violation(V(f"compare.{opn}.empty", "mask-of-nothing-selects-something", case, [], list(picked._underlying)))
    for n in range(1, maxlen + 1):
        for xs in itertools.product(alpha, repeat=n):
            xs = list(xs)
            # self comparison and shared-storage comparison
            for opn, op in ops.items():
                if kind == "str" and False:
                    pass
                want = expected_cmp(op, xs, xs)
                case = {"op": opn, "left": xs, "form": "self"}
                agg.evals += 1; agg.transitions += 2; agg.states += 1
                try:
                    v = Vector(xs)
                    if n % 2:
                        v.fingerprint()
                    res = op(v, v)
                    check_bool_result(agg, f"compare.{opn}.self", res, want, case,
                                      f"from serif import Vector\nv = Vector({xs!r})\nprint(list(v.__{opn}__(v)) if hasattr(v,'__{opn}__') else None, 'expected', {want!r})")
                    tup = tuple(xs)
                    a, b = Vector(tup), Vector(tup)
                    a.fingerprint(); b.fingerprint()
                    res = op(a, b)
                    check_bool_result(agg, f"compare.{opn}.copy-fp", op(a, a.copy()), want, dict(case, form="copy, fingerprint cached"))
                    check_bool_result(agg, f"compare.{opn}.shared", res, want, dict(case, form="shared-tuple"))
                except TypeError as e:
                    if _python_raises(op, xs, xs):
                        agg.skipped["python-raises"] += 1
                    else:
                        agg.violation(V(f"compare.{opn}.self", "raises-" + type(e).__name__, case, want))
                except Exception as e:
                    agg.violation(V(f"compare.{opn}.self", "raises-" + type(e).__name__, case, want))
            for ys in itertools.product(alpha, repeat=n):
                ys = list(ys)
                for opn, op in ops.items():
                    if _python_raises(op, xs, ys):
                        agg.skipped["python-raises"] += 1
                        continue
                    want = expected_cmp(op, xs, ys)
                    agg.states += 1
                    if len(set(want)) > 1:
                        agg.nontrivial += 1
                    for form in ("vv", "vl", "vt", "vv-fp"):
                        agg.evals += 1; agg.transitions += 1
                        case = {"op": opn, "left": xs, "right": ys, "form": form}
                        try:
                            l = Vector(xs)
                            r = Vector(ys) if form in ("vv", "vv-fp") else (list(ys) if form == "vl" else tuple(ys))
                            if form == "vv-fp":          # both operands have a cached fingerprint before they are compared
                                l.fingerprint(); r.fingerprint()
                            res = op(l, r)
                        except Exception as e:
                            agg.violation(V(f"compare.{opn}.{form}", "raises-" + type(e).__name__, case, want))
                            continue
                        agg.outcomes["cmp-ok"] += 1
                        check_bool_result(agg, f"compare.{opn}.{form}", res, want, case)
            # scalar right operand
            for y in alpha:
                if y is None:
                    continue
                for opn, op in ops.items():
                    if _python_raises(op, xs, [y] * n):
                        agg.skipped["python-raises"] += 1
                        continue
                    want = expected_cmp(op, xs, [y] * n)
                    agg.evals += 1; agg.transitions += 1; agg.states += 1
                    case = {"op": opn, "left": xs, "right": y, "form": "vs"}
                    try:
                        res = op(Vector(xs), y)
                    except Exception as e:
                        agg.violation(V(f"compare.{opn}.vs", "raises-" + type(e).__name__, case, want))
                        continue
                    check_bool_result(agg, f"compare.{opn}.vs", res, want, case)
            # length mismatch must raise, never truncate
            for extra in ([alpha[0]], []):
                ys = xs + extra if extra else xs[:-1]
                if len(ys) == len(xs):
                    continue
                for form in ("vv", "vl"):
                    agg.evals += 1; agg.transitions += 1
                    case = {"op": "eq", "left": xs, "right": ys, "form": form}
                    try:
                        r = Vector(ys) if (form == "vv" and ys) else list(ys)
                        res = Vector(xs) == r
                        agg.violation(V(f"compare.eq.{form}", "length-mismatch-accepted", case, "error",
                                        list(res._underlying) if hasattr(res, "_underlying") else repr(res)))
                    except Exception:
                        agg.outcomes["cmp-length-mismatch-raises"] += 1
                    agg.compared += 1
    if kind == "bool":
        # logical NOT, on every bool vector of length 0..maxlen+1; the result must be usable as a mask again
        for n in range(0, maxlen + 2):
            for xs in itertools.product([True, False], repeat=n):
                xs = list(xs)
                want = [not x for x in xs]
                agg.evals += 1; agg.transitions += 2; agg.states += 1
                case = {"op": "invert", "operand": xs}
                try:
                    m = Vector(xs, dtype=bool) if not xs else Vector(xs)
                    res = ~m
                    check_bool_result(agg, "compare.invert", res, want, case)
                    data = Vector(list(range(n)), dtype=int) if not xs else Vector(list(range(n)))
                    sel = data[res]
                    if list(sel._underlying) != [i for i, w in enumerate(want) if w]:
                        agg.violation(V("compare.invert", "inverted-mask-selects-wrong-rows", case, [i for i, w in enumerate(want) if w], list(sel._underlying)))
                    else:
                        agg.outcomes["invert-ok"] += 1
                except Exception as e:
                    agg.violation(V("compare.invert", "raises-" + type(e).__name__ + ("-zero-length" if not xs else ""), case, want, repr(e)[:80]))
        # masks derived from comparisons of EMPTY vectors (a selection that matched nothing)
        for opn, op in CMP.items():
            agg.evals += 1; agg.transitions += 3
            case = {"op": opn, "operand": [], "form": "empty-vs-scalar"}
            try:
                e = Vector([5, 6, 7])[Vector([False, False, False])]
                m = op(e, 2)
                check_bool_result(agg, f"compare.{opn}.empty", m, [], case)
                check_bool_result(agg, "compare.invert", ~m, [], dict(case, then="invert"))
                if len(e[~m]) != 0 or len(e[m]) != 0:
                    agg.violation(V("compare.invert", "empty-mask-selects-rows", case))
            except Exception as ex:
                agg.violation(V(f"compare.{opn}.empty", "raises-" + type(ex).__name__ + "-zero-length", case, [], repr(ex)[:80]))
    agg.sample({"compare": kind, "alphabet": alpha, "max_len": maxlen})
    return agg


# cross-kind comparisons: the vector is of one kind, the other operand (scalar, list, tuple, vector) of another; Python's own
# comparison is exact across int / float / complex (2.0**53 != 2**53 + 1) and never equates a datetime with a date
from datetime import date as _date, datetime as _datetime
CROSS = [
    ("float-edge", [2.0 ** 53, 1.5, -0.0], "int-edge", [2 ** 53 + 1, 2 ** 53, 0, 10 ** 400]),
    ("int-edge", [2 ** 53 + 1, 2 ** 53, 0], "float-edge", [2.0 ** 53, 1.5, -0.0]),
    ("complex-edge", [complex(2 ** 53, 0), 1j], "int-edge", [2 ** 53 + 1, 2 ** 53, 0]),
    ("datetime", [_datetime(2020, 1, 1, 0, 0), _datetime(2020, 1, 1, 5, 0)], "date", [_date(2020, 1, 1), _date(2021, 1, 1)]),
    ("date", [_date(2020, 1, 1), _date(2021, 1, 1)], "datetime", [_datetime(2020, 1, 1, 0, 0), _datetime(2020, 1, 1, 5, 0)]),
    ("bytes", [b"ab", b"cd", b""], "bytes", [b"ab", b"", b"abc"]),
    ("str", ["ab", "cd", ""], "bytes", [b"ab", b""]),
    ("bool", [True, False], "int-edge", [1, 0, 2]),
    ("int-small", [6, 3, 0], "bool", [True, False]),          # & | ^ between flags and counts: the result is still a bool vector
    ("int-small", [6, 3, 0], "int-small", [2, 0, 5]),
    ("str", ["ab", "a"], "str-long", ["ab", "abc"]),       # a scalar whose own length equals the vector's is still a scalar
]


def unit_compare_cross(unit):
    from serif import Vector
    _, ci, maxlen = unit
    lk, lalpha, rk, ralpha = CROSS[ci]
    agg = Agg()
    for n in range(1, maxlen + 1):
        for xs in itertools.product(lalpha, repeat=n):
            xs = list(xs)
            for opn, op in list(CMP.items()) + (list(LOGIC.items()) if {lk, rk} <= {"bool", "int-edge", "int-small"} else []):
                # scalar right operand, both orders
                for y in ralpha:
                    for order in ("v-op-s", "s-op-v"):
                        pairs = (xs, [y] * n) if order == "v-op-s" else ([y] * n, xs)
                        if _python_raises(op, *pairs):
                            agg.skipped["python-raises"] += 1
                            continue
                        want = expected_cmp(op, *pairs)
                        agg.evals += 1; agg.transitions += 1; agg.states += 1
                        if len(set(want)) > 1 or n == 1:
                            agg.nontrivial += 1
                        case = {"op": opn, "vector_kind": lk, "vector": [repr(x) for x in xs], "scalar_kind": rk, "scalar": repr(y), "form": order}
                        try:
                            res = op(Vector(xs), y) if order == "v-op-s" else op(y, Vector(xs))
                        except Exception as e:
                            agg.violation(V(f"compare.{opn}.cross-scalar", "raises-" + type(e).__name__, case, want, repr(e)[:80]))
                            continue
                        check_bool_result(agg, f"compare.{opn}.cross-scalar", res, want, case)
                        agg.outcomes["cmp-ok"] += 1
                # sequence / vector right operand of the other kind
                for ys in itertools.product(ralpha, repeat=n):
                    ys = list(ys)
                    if _python_raises(op, xs, ys):
                        agg.skipped["python-raises"] += 1
                        continue
                    want = expected_cmp(op, xs, ys)
                    for form in ("vv", "vl", "vt"):
                        agg.evals += 1; agg.transitions += 1; agg.states += 1
                        case = {"op": opn, "vector_kind": lk, "vector": [repr(x) for x in xs], "other_kind": rk, "other": [repr(y) for y in ys], "form": form}
                        try:
                            r = Vector(ys) if form == "vv" else (list(ys) if form == "vl" else tuple(ys))
                            res = op(Vector(xs), r)
                        except Exception as e:
                            agg.violation(V(f"compare.{opn}.cross-{form}", "raises-" + type(e).__name__, case, want, repr(e)[:80]))
                            continue
                        check_bool_result(agg, f"compare.{opn}.cross-{form}", res, want, case)
                        agg.outcomes["cmp-ok"] += 1
    agg.sample({"compare-cross": [lk, rk], "max_len": maxlen})
    return agg



def unit_compare_table(unit):
    """a comparison between a vector and a table is the comparison of the vector with each column, in the WRITTEN operand order:
    v < T is [v < c for c in columns], T < v is [c < v ...]; also scalar-with-table in both orders"""
    from serif import Vector, Table
    agg = Agg()
    colsets = [[[1, 5, 3], [4, 2, 6]], [[1, 2, 3]], [[None, 2, 3], [3, None, 1]], [["a", "c", "b"], ["b", "b", "b"]], [[0.5, 2.5, 1.5], [1, 2, 3]]]
    for cols in colsets:
        t = Table([Vector(list(c), name=f"c{i}") for i, c in enumerate(cols)])
        kind = type(next(x for x in cols[0] if x is not None))
        others = [("vector", [cols[0][1]] * 3), ("vector", list(cols[-1])[::-1]), ("scalar", cols[0][1])]
        for ok_, other in others:
            for opn, op in CMP.items():
                for order in ("other-first", "table-first"):
                    if order == "table-first" and ok_ == "vector":
                        continue        # T op v takes one element of v per COLUMN in this library; the statement does not say, not judged
                    agg.evals += 1; agg.transitions += 1; agg.states += 1; agg.nontrivial += 1
                    ys = other if ok_ == "vector" else [other] * 3
                    want = [expected_cmp(op, ys, c) if order == "other-first" else expected_cmp(op, c, ys) for c in cols]
                    case = {"table_columns": cols, "other": other, "op": opn, "order": order}
                    o = Vector(list(other)) if ok_ == "vector" else other
                    try:
                        res = op(o, t) if order == "other-first" else op(t, o)
                        got = [list(c._underlying) for c in res._underlying]
                    except Exception as e:
                        agg.violation(V(f"compare.{opn}.table", "raises-" + type(e).__name__, case, want, repr(e)[:80]))
                        continue
                    agg.compared += 1
                    if got != want:
                        swapped = [expected_cmp(op, c, ys) if order == "other-first" else expected_cmp(op, ys, c) for c in cols]
                        agg.violation(V(f"compare.{opn}.table", "operands-in-wrong-order" if got == swapped else "wrong-values", case, want, got))
                    else:
                        agg.outcomes["cmp-ok"] += 1
    return agg


def _python_raises(op, xs, ys):
    try:
        for x, y in zip(xs, ys):
            if x is not None and y is not None:
                bool(op(x, y))
        return False
    except Exception:
        return True


# --------------------------------------------------------------------------------------
# tables
# --------------------------------------------------------------------------------------

TCOLS = {
    "a": [1, 2, 3, 4],
    "b": ["p", "q", "r", "s"],
    "c": [0.5, 1.5, None, 3.5],
}
NAME_SETS = [("a",), ("a", "b"), ("a", "b", "c"), ("a", "a"), ("a", "b", "a")]


def table_model(names, nrows):
    kinds = ["a", "b", "c"]
    return [(nm, list(TCOLS[kinds[i]][:nrows])) for i, nm in enumerate(names)]


def model_select_cols(model, keys):
    out = []
    for k in keys:
        hit = [c for c in model if c[0] == k]
        if not hit:
            return KeyError
        out.append((hit[0][0], list(hit[0][1])))
    return out


def model_select_rows(model, key, nrows):
    if isinstance(key, slice):
        return [(nm, vals[key]) for nm, vals in model]
    if isinstance(key, tuple) and key and key[0] == "mask":
        bits = key[1]
        if len(bits) != nrows:
            return ValueError
        return [(nm, [x for x, b in zip(vals, bits) if b]) for nm, vals in model]
    if isinstance(key, tuple) and key and key[0] == "idx":
        return [(nm, [vals[i] for i in key[1]]) for nm, vals in model]
    raise AssertionError(key)


def table_obs(t):
    if type(t).__name__ != "Table":
        return ("not-a-table", type(t).__name__)
    return [(c._name, list(c._underlying)) for c in t._underlying]


def same_table(obs_t, model):
    if not isinstance(obs_t, list) or len(obs_t) != len(model):
        return False
    return all(a[0] == b[0] and same_list(a[1], b[1]) for a, b in zip(obs_t, model))


def real_rowkey(Vector, key, form):
    if isinstance(key, slice):
        return key
    if key[0] == "mask":
        return list(key[1]) if form == "list" else Vector(list(key[1]), dtype=bool)
    return Vector(list(key[1]))


def unit_table(unit):
    from serif import Vector, Table
    _, names, nrows = unit
    agg = Agg()
    model = table_model(names, nrows)

    def build():
        return Table([Vector(list(vals), name=nm) for nm, vals in model])

    d = {"names": list(names), "rows": nrows}
    stored = sorted(set(names))
    colkeys = []
    universe = stored + ["zz"]
    for L in (1, 2, 3):
        for tup in itertools.product(universe, repeat=L):
            colkeys.append(tup)
    rowkeys = []
    rng = [None] + list(range(-nrows - 1, nrows + 2))
    for a in rng:
        for b in rng:
            for st in (None, 1, 2, -1, -2):
                rowkeys.append((slice(a, b, st), "slice"))
    for m in (nrows - 1, nrows, nrows + 1):
        if m < 0:
            continue
        for bits in itertools.product([False, True], repeat=m):
            if m == 0:
                if nrows == 0:
                    # the empty mask of the right length on a zero-row table (a typed bool VECTOR; the list [] is ambiguous): still a table
                    rowkeys.append((("mask", bits), "vector"))
                continue
            rowkeys.append((("mask", bits), "list"))
            rowkeys.append((("mask", bits), "vector"))
    for tup in itertools.product(range(-nrows, nrows), repeat=2):
        rowkeys.append((("idx", tup), "vector"))

    t = build()
    before = table_obs(t)
    # ---- column selection alone
    cols_results = {}
    for ck in colkeys:
        agg.evals += 1; agg.transitions += 1; agg.states += 1
        want = model_select_cols(model, ck)
        case = dict(d, colkey=list(ck))
        py = (f"from serif import Table\nt = Table({ {nm: vals for nm, vals in model} !r})\n"
              f"print(t[{ck!r}].column_names())  # expected: error, column 'zz' does not exist") if "zz" in ck else None
        try:
            res = t[ck] if len(ck) > 1 else t[ck[0],]
        except Exception as e:
            res = e
        agg.compared += 1
        if want is KeyError:
            agg.outcomes["missing-column"] += 1
            if not isinstance(res, Exception):
                agg.violation(V("table.getitem.cols", "missing-column-accepted", case, "error", table_obs(res), py))
            continue
        if isinstance(res, Exception):
            agg.violation(V("table.getitem.cols", "raises-" + type(res).__name__, case, want))
            continue
        cols_results[ck] = res
        if not same_table(table_obs(res), want):
            agg.violation(V("table.getitem.cols", "wrong-columns", case, want, table_obs(res)))
        else:
            agg.outcomes["table-cols-ok"] += 1
    # the positional system names (col<k>_) belong to UNNAMED columns only: asked of a table whose columns all carry proper names they
    # name nothing - alone, inside a name tuple, in upper case, and after a row selection
    if names and all(isinstance(x, str) and x and not x.lower().startswith("col") for x in names):
        for k in range(len(names) + 1):
            for spelled in (f"col{k}_", f"COL{k}_", f"Col{k}_"):
                for form in ("single", "tuple", "after-row-slice", "2d"):
                    agg.evals += 1; agg.transitions += 1; agg.compared += 1
                    try:
                        if form == "single":
                            r_ = t[spelled]
                        elif form == "tuple":
                            r_ = t[names[0], spelled]
                        elif form == "after-row-slice":
                            r_ = t[0:nrows][spelled]
                        else:
                            r_ = t[0:nrows, (spelled,)]
                    except Exception as e:
                        r_ = e
                    if isinstance(r_, Exception):
                        agg.outcomes["missing-column"] += 1
                    else:
                        agg.violation(V("table.getitem.cols", "missing-column-accepted", dict(d, colkey=spelled, form=form, note="system name of a properly named column"), "error", repr(r_)[:60]))
    # single string key: the column itself
    for nm in universe:
        agg.evals += 1; agg.transitions += 1
        try:
            c = t[nm]
        except Exception as e:
            c = e
        agg.compared += 1
        if nm == "zz":
            if not isinstance(c, Exception):
                agg.violation(V("table.getitem.name", "missing-column-accepted", dict(d, colkey=nm), "error", repr(c)[:60]))
        else:
            first = [i for i, x in enumerate(names) if x == nm][0]
            if isinstance(c, Exception) or c is not t._underlying[first]:
                agg.violation(V("table.getitem.name", "not-first-occurrence", dict(d, colkey=nm), first, repr(c)[:60]))
    def commute(rk, form, rres):
        want_rows = model_select_rows(model, rk, nrows)
        for ck, tc in cols_results.items():
            agg.evals += 1; agg.transitions += 2; agg.states += 1
            want = model_select_cols(want_rows, ck)
            case = dict(d, rowkey=_kdesc(rk), form=form, colkey=list(ck))
            try:
                rc = rres[ck] if len(ck) > 1 else rres[ck[0],]
                cr = tc[real_rowkey(Vector, rk, form)]
            except Exception as e:
                agg.violation(V("table.getitem.commute", "raises-" + type(e).__name__, case, want))
                continue
            agg.compared += 2
            o1, o2 = table_obs(rc), table_obs(cr)
            if not same_table(o1, want) or not same_table(o2, want):
                sel_n = len(want[0][1]) if want else 0
                sym = "empty-selection-returns-whole" if (sel_n == 0 and nrows > 0) else "rows-cols-do-not-commute"
                agg.violation(V("table.getitem.commute", sym, case, want, {"rows_then_cols": o1, "cols_then_rows": o2}))
            else:
                agg.outcomes["commute-ok"] += 1
            if isinstance(rk, slice):
                agg.transitions += 1
                try:
                    two = t[rk, ck]
                    agg.compared += 1
                    if not same_table(table_obs(two), want):
                        sel_n = len(want[0][1]) if want else 0
                        sym = "empty-selection-returns-whole" if (sel_n == 0 and nrows > 0) else "2d-key-differs"
                        agg.violation(V("table.getitem.2d", sym, case, want, table_obs(two)))
                except Exception as e:
                    agg.violation(V("table.getitem.2d", "raises-" + type(e).__name__, case, want))

    # ---- row selection alone: applied to every column alike
    from mc import provenance
    for ki, (rk, form) in enumerate(rowkeys):
        agg.evals += 1; agg.transitions += 1; agg.states += 1
        want = model_select_rows(model, rk, nrows)
        route, tv = provenance.table_variant(model, ki)        # the table itself comes from a different route each time
        case = dict(d, rowkey=_kdesc(rk), form=form, route=route)
        try:
            res = tv[real_rowkey(Vector, rk, form)]
        except Exception as e:
            res = e
        agg.compared += 1
        if want is ValueError:
            agg.outcomes["table-mask-wrong-length"] += 1
            if not isinstance(res, Exception):
                agg.violation(V("table.getitem.rows", "wrong-length-mask-accepted", case, "error", table_obs(res)))
            continue
        if isinstance(res, Exception):
            agg.violation(V("table.getitem.rows", "raises-" + type(res).__name__, case, want))
            continue
        o = table_obs(res)
        sel_n = len(want[0][1]) if want else 0
        if 0 < sel_n < nrows:
            agg.nontrivial += 1
        if not same_table(o, want):
            if sel_n == 0 and same_table(o, model) and nrows > 0:
                sym = "empty-selection-returns-whole"
            elif isinstance(o, list) and len(o) == len(want) and [x[0] for x in o] != [x[0] for x in want]:
                sym = "names-not-kept"
            elif isinstance(o, list) and len(o) == len(want) and any(len(x[1]) != len(y[1]) for x, y in zip(o, want)):
                sym = "wrong-row-count"
            elif not isinstance(o, list):
                sym = "result-not-a-table"
            else:
                sym = "wrong-cells"
            agg.violation(V(f"table.getitem.rows.{form}", sym, case, want, o))
        else:
            agg.outcomes["table-rows-ok"] += 1
            # dtype kinds kept per column
            for c0, c1 in zip(t._underlying, res._underlying):
                s0, s1 = schema_of(c0), schema_of(c1)
                if s0 and (s1 is None or s1[0] != s0[0]):
                    agg.violation(V(f"table.getitem.rows.{form}", "dtype-kind-not-kept", case, s0, s1))
        commute(rk, form, res)
        res = None
    if table_obs(t) != before and not same_table(table_obs(t), model):
        agg.violation(V("table.getitem", "operand-modified", d, before, table_obs(t)))
    # ---- every documented 2-D key form, in both argument orders: t[rows, cols] and t[cols, rows]
    if nrows and names:
        row_specs = [slice(None), slice(0, 1), slice(1, None), slice(None, None, -1), slice(0, 0)] + list(range(-nrows, nrows))
        uniq = [nm for nm in stored if list(names).count(nm) == 1]
        col_specs = [("int", c) for c in range(-len(names), len(names))] + [("name", nm) for nm in stored] + \
                    [("names", tuple(p)) for p in itertools.permutations(stored, 2)] + [("names", (nm,)) for nm in stored] + \
                    [("cslice", (a, b)) for a in (None, 0, 1) for b in (None, 1, len(names))]
        for rs in row_specs:
            for kind_, cs in col_specs:
                for order in ("rows-first", "cols-first"):
                    if order == "cols-first" and kind_ in ("int", "cslice"):
                        continue            # ints and slices are row specifiers when they come first
                    agg.evals += 1; agg.transitions += 1; agg.compared += 1
                    ridx = list(range(nrows))[rs] if isinstance(rs, slice) else rs
                    if kind_ == "int":
                        cidx = [cs % len(names)]; key_c = cs
                    elif kind_ == "name":
                        cidx = [list(names).index(cs)]; key_c = cs
                    elif kind_ == "names":
                        cidx = [list(names).index(x) for x in cs]; key_c = cs
                    else:
                        cidx = list(range(len(names)))[slice(*cs)]; key_c = slice(*cs)
                    case = dict(d, rowspec=_kdesc(rs) if isinstance(rs, slice) else rs, colspec=[kind_, list(cs) if isinstance(cs, tuple) else cs], order=order)
                    try:
                        got = t[rs, key_c] if order == "rows-first" else t[key_c, rs]
                    except Exception as e:
                        got = e
                    # expected value
                    if isinstance(ridx, int):
                        want_cells = [model[c][1][ridx] for c in cidx]
                        if kind_ in ("int", "name"):
                            okk = (not isinstance(got, Exception)) and same_list([got], [want_cells[0]])
                        else:
                            if isinstance(got, Exception):
                                agg.skipped["2d-int-row-with-multi-column-key-raises"] += 1
                                continue
                            try:
                                okk = same_list(list(got), want_cells)
                            except Exception:
                                # one row and a one-name tuple: a bare cell is an acceptable reading of the key
                                okk = len(want_cells) == 1 and same_list([got], want_cells)
                    else:
                        want_cols = [(model[c][0], [model[c][1][i] for i in ridx]) for c in cidx]
                        if isinstance(got, Exception):
                            okk = False
                        elif kind_ in ("int", "name"):
                            okk = hasattr(got, "_underlying") and type(got).__name__ != "Table" and same_list(list(got._underlying), want_cols[0][1])
                        else:
                            okk = same_table(table_obs(got), want_cols) or (not ridx and type(got).__name__ != "Table") or (not cidx)
                    if not okk:
                        agg.violation(V("table.getitem.2dform", "wrong-cells-for-2d-key" + ("-cols-first" if order == "cols-first" else ""), case,
                                        None, repr(got)[:120] if isinstance(got, Exception) else (table_obs(got) if type(got).__name__ == "Table" else repr(got)[:120])))
                    else:
                        agg.outcomes["2dform-ok"] += 1
    # ---- integer row index: in range -> that row's cells; out of range (either side) -> an error when the row is read
    for i in range(-2 * nrows - 2, 2 * nrows + 2):
        agg.evals += 1; agg.transitions += 1; agg.compared += 1
        case = dict(d, rowkey=i)
        try:
            got = list(t[i])
            if len(names):
                got2 = [t[i, c] for c in range(len(names))]
            else:
                got2 = got
        except Exception as e:
            got = got2 = e
        if -nrows <= i < nrows:
            want = [vals[i] for _, vals in model]
            if isinstance(got, Exception) or not same_list(got, want) or isinstance(got2, Exception) or not same_list(got2, want):
                agg.violation(V("table.getitem.introw", "wrong-row", case, want, repr(got)[:80]))
            else:
                agg.outcomes["int-row-ok"] += 1
        elif names:
            if not isinstance(got, Exception) or not isinstance(got2, Exception):
                agg.violation(V("table.getitem.introw", "out-of-range-row-readable", case, "IndexError", repr(got)[:80]))
            else:
                agg.outcomes["int-row-out-of-range-raises"] += 1
    # ---- rows taken first and read later, other rows of the same table being taken in between
    if nrows and names:
        agg.evals += 1; agg.transitions += 2 * nrows; agg.compared += 2 * nrows
        try:
            held = [(i, t[i]) for i in range(-nrows, nrows)]
            t.shape; repr(t)
            got = [(i, list(r)) for i, r in held]
        except Exception as e:
            got = e
        want = [(i, [vals[i] for _, vals in model]) for i in range(-nrows, nrows)]
        if isinstance(got, Exception):
            agg.violation(V("table.getitem.introw", "held-rows-raise-" + type(got).__name__, d))
        elif any(not same_list(g[1], w[1]) for g, w in zip(got, want)):
            agg.violation(V("table.getitem.introw", "row-taken-earlier-shows-another-row", d, want, got))
        else:
            agg.outcomes["held-rows-ok"] += 1
    # ---- rows reached by ITERATION, each sliced / masked / index-selected while the iteration goes on (and after other rows were used)
    if nrows and names:
        W = len(names)
        agg.evals += 1; agg.transitions += 4 * nrows; agg.compared += 4 * nrows
        bad = None
        try:
            for i, row in enumerate(t):
                wantrow = [vals[i] for _, vals in model]
                got = {"slice": list(row[0:W]._underlying), "rev": list(row[::-1]._underlying), "mask": list(row[[True] * W]._underlying),
                       "index": list(row[[W - 1, 0]]._underlying), "iter": list(row)}
                want = {"slice": wantrow, "rev": wantrow[::-1], "mask": wantrow, "index": [wantrow[W - 1], wantrow[0]], "iter": wantrow}
                for k_ in got:
                    if not same_list(got[k_], want[k_]):
                        bad = (i, k_, want[k_], got[k_])
                        break
                if bad:
                    break
        except Exception as e:
            bad = ("raises", type(e).__name__, None, repr(e)[:80])
        if bad:
            agg.violation(V("table.iteration.row-selection", "iterated-row-selection-shows-another-row" if bad[0] != "raises" else "raises-" + bad[1],
                            dict(d, row=bad[0], form=bad[1]), bad[2], bad[3]))
        else:
            agg.outcomes["iterated-rows-ok"] += 1
    # ---- histories: rename a column through a live view (and swap two names), then select by name
    if nrows and len(names) >= 1:
        scenarios = [("rename-first", {0: "renamed"})]
        if len(names) >= 2 and names[0] != names[1]:
            scenarios.append(("swap-names", {0: names[1], 1: names[0]}))
        for lab, newnames in scenarios:
            for warm in (False, True):
                t2 = build()
                if warm:
                    try:
                        getattr(t2, "a", None); t2[("a",)] if "a" in names else None
                    except Exception:
                        pass
                cols2 = list(t2.cols())
                for ci, nn in newnames.items():
                    cols2[ci].name = nn
                model2 = [(newnames.get(i, nm), vals) for i, (nm, vals) in enumerate(model)]
                for ck in colkeys:
                    if len(ck) > 2:
                        continue
                    ck2 = tuple("renamed" if x == "zz" and lab == "rename-first" else x for x in ck)
                    want = model_select_cols(model2, ck2)
                    agg.evals += 1; agg.transitions += 1; agg.compared += 1
                    case = dict(d, history=[f"{lab} through live column views", "select"], colkey=list(ck2), warm_map=warm)
                    try:
                        res = t2[ck2] if len(ck2) > 1 else t2[ck2[0],]
                    except Exception as e:
                        res = e
                    if want is KeyError:
                        if not isinstance(res, Exception):
                            agg.violation(V("table.getitem.cols.after-rename", "missing-column-accepted", case, "error", table_obs(res)))
                        else:
                            agg.outcomes["after-rename-ok"] += 1
                    elif isinstance(res, Exception):
                        agg.violation(V("table.getitem.cols.after-rename", "raises-" + type(res).__name__, case, want))
                    elif not same_table(table_obs(res), want):
                        agg.violation(V("table.getitem.cols.after-rename", "wrong-columns", case, want, table_obs(res)))
                    else:
                        agg.outcomes["after-rename-ok"] += 1
    agg.sample({"table": d, "row_keys": len(rowkeys), "col_keys": len(colkeys)})
    return agg


def _kdesc(rk):
    if isinstance(rk, slice):
        return ["slice", rk.start, rk.stop, rk.step]
    return [rk[0], list(rk[1])]


def check(ctx):
    N = ctx.pick(4, 7)
    R = ctx.pick(3, 4)
    L = ctx.pick(2, 3)
    units = [("vec", k, n) for k in KINDS for n in range(0, N + 1)]
    parts = core.pmap(unit_vector, units)
    parts += core.pmap(unit_vector_long, [("veclong", k) for k in ("int", "str", "float", "int?")])
    parts += core.pmap(unit_compare, [("cmp", k, L) for k in CMP_ALPHA])
    parts += core.pmap(unit_compare_cross, [("cmpx", i, L) for i in range(len(CROSS))])
    parts += core.pmap(unit_compare_table, [("cmpt",)])
    tunits = [("tab", names, r) for names in NAME_SETS for r in range(0, R + 1)]
    parts += core.pmap(unit_table, tunits)
    agg = core.merge_all(parts)
    agg.notes["bound"] = f"vectors len<={N}; tables rows<={R} x cols<=3; comparison operands len 0..{L} (zero-length reached by filter / empty slice / typed empty)"
    agg.notes["exhaustive"] = True
    return agg


def coverage_goals(ctx, agg):
    bad = []
    for k in ("slice-empty", "slice-reversed", "mask-ok", "mask-wrong-length", "int-out-of-range", "cmp-ok", "missing-column"):
        if agg.outcomes.get(k, 0) == 0:
            bad.append(k)
    return bad


def replay(rec):
    from serif import Vector
    case = rec.get("case") or {}
    agg = Agg()
    site = rec["site"]
    if site.startswith("vector.getitem.slice"):
        kind = case["kind"]; n = len(case["values"])
        v = mk(Vector, kind, n, case["name"])
        a, b, c = case["key"]
        sl = slice(a, b, c)
        want = list(KINDS[kind][:n])[sl]
        try:
            res = v[sl]
            check_result(agg, "vector.getitem.slice", v, res, want, case)
        except Exception as e:
            agg.violation(V("vector.getitem.slice", "raises-" + type(e).__name__, case))
        return set(agg.viol)
    return None
