"""C14 — sorting is a stable permutation with direction-independent None placement (Engine E)."""
from __future__ import annotations

import functools
import itertools

from mc import core
from mc.core import Agg, V
from mc.models import canon_elem, obs, same_list, schema_of

RULE = ("every table with <=N rows (position + payload columns), 1..3 sort keys over a 3-symbol alphabet (ints / strings / "
        "mixed equal numbers 1,True,1.0; None is a symbol), every per-key direction (scalar and list form), na_last True/False, keys by "
        "name / own column / external vector; every vector of that size through Vector.sort_by; sort-write-sort histories; "
        "non-trivial = at least one tie on all keys or at least one None key")
ASSUMPTIONS = ["specification sort written as a comparison function (cmp_to_key), independent of serif's key-tuple trick"]

INF = float("inf")
ALPHA = {
    "int": [0, 2, None],
    "str": ["", "b", None],
    "strp": ["a", "ab", None],     # one string is a proper prefix of the other (a character-wise inverted key gets these wrong)
    "eqnum": [1, True, None],      # 1 == True: ties between distinguishable values (stability is observable)
    "intc": [-1, -2, None],        # equal hash, different value
    "finf": [INF, 1.5, None],      # a real +inf next to None (None must still be placed by the None rule, not as a sentinel)
    "fninf": [-INF, 1.5, None],
}
TABLE_KINDS = ("int", "str", "eqnum")
FORMS = ("name", "column", "external")


def spec_sort(rows, keycols, revs, na_last):
    """rows: list of row indices; keycols: list of key value lists."""
    def cmp(a, b):
        for kc, rev in zip(keycols, revs):
            va, vb = kc[a], kc[b]
            if va is None and vb is None:
                continue
            if va is None:
                return 1 if na_last else -1
            if vb is None:
                return -1 if na_last else 1
            if va == vb:
                continue
            lt = va < vb
            if rev:
                lt = not lt
            return -1 if lt else 1
        return -1 if a < b else (1 if a > b else 0)
    return sorted(rows, key=functools.cmp_to_key(cmp))


VARIANT = [0]      # provenance round-robin counter


def build(keys, nkeys, form, variant=None):
    from serif import Table, Vector
    n = len(keys)
    kcols = [(f"k{j}", [k[j] for k in keys]) for j in range(nkeys)]
    pay = [("pos", list(range(n))), ("p", [f"r{i}" for i in range(n)])]
    cols = pay if form in ("external", "external-same-name") else [pay[0]] + kcols + [pay[1]]
    if variant is None:
        t = Table([Vector(list(c), name=nm) for nm, c in cols])
    else:
        from mc import provenance
        _, t = provenance.table_variant(cols, variant, flagged=True)
    if form == "name":
        by = [nm for nm, _ in kcols]
    elif form == "column":
        by = [t[nm] for nm, _ in kcols]
    elif form == "external-same-name":
        by = [Vector(list(c), name="key") for _, c in kcols]        # DIFFERENT key vectors that carry one and the same name
    elif form == "name-then-namesake":
        # the first key by its name, every later key an external vector that carries the first key's NAME but its own values
        by = [kcols[0][0]] + [Vector(list(c), name=kcols[0][0]) for _, c in kcols[1:]]
    else:
        by = [Vector(list(c)) for _, c in kcols]
    return t, by, cols


def classify(got_pos, want_pos, keycols, revs, na_last):
    if sorted(got_pos) != sorted(want_pos):
        return "not-a-permutation"
    # where do the None keys of the first key sit?
    k0 = keycols[0]
    gn = [k0[i] is None for i in got_pos]
    wn = [k0[i] is None for i in want_pos]
    if gn != wn:
        return "none-placement-wrong" + ("-descending" if revs[0] else "-ascending")
    # same key sequence but different positions => stability
    def keyseq(pos):
        return [tuple(repr(kc[i]) if False else (kc[i] == kc[i] and kc[i]) for kc in keycols) for i in pos]
    if all(all(kc[a] == kc[b] for kc in keycols) for a, b in zip(got_pos, want_pos)):
        return "ties-not-stable" + ("-descending" if any(revs) else "-ascending")
    return "wrong-order"


def check_table(agg, kind, nkeys, form, keys, revs, rev_form, na_last):
    n = len(keys)
    case = {"kind": kind, "nkeys": nkeys, "form": form, "keys": [list(k) for k in keys], "reverse": list(revs),
            "reverse_form": rev_form, "na_last": na_last}
    try:
        VARIANT[0] += 1
        case["variant"] = VARIANT[0]
        t, by, cols = build(keys, nkeys, form, variant=VARIANT[0])
    except Exception as e:
        agg.violation(V("table.sort_by.build-inputs", "raises-" + type(e).__name__, case))
        return
    keycols = [[k[j] for k in keys] for j in range(nkeys)]
    want_pos = spec_sort(list(range(n)), keycols, revs, na_last)
    before = obs(t)
    by_arg = by[0] if (nkeys == 1 and rev_form == "scalar") else by
    rev_arg = revs[0] if rev_form == "scalar" else list(revs)
    if VARIANT[0] % 2 and rev_form != "scalar":      # sequence arguments may be lists or tuples
        by_arg, rev_arg = tuple(by_arg), tuple(rev_arg)
        case["argument_form"] = "tuples"
    agg.evals += 1
    agg.transitions += 1
    site = f"table.sort_by.{form}"
    py = ("from serif import Table, Vector\n"
          f"t = Table({ {nm: c for nm, c in ([('pos', list(range(n)))] + [(f'k{j}', keycols[j]) for j in range(nkeys)])} !r})\n"
          f"print(list(t.sort_by({[f'k{j}' for j in range(nkeys)]!r}, reverse={rev_arg!r}, na_last={na_last!r}).pos), 'expected', {want_pos!r})")
    arg_img = [(type(a).__name__, tuple(id(x) if not isinstance(x, bool) else x for x in a)) if isinstance(a, (list, tuple)) else None for a in (by_arg, rev_arg)]
    try:
        res = t.sort_by(by_arg, reverse=rev_arg, na_last=na_last)
    except Exception as e:
        agg.violation(V(site, "raises-" + type(e).__name__, case, want_pos, repr(e)[:100], py))
        return
    if arg_img != [(type(a).__name__, tuple(id(x) if not isinstance(x, bool) else x for x in a)) if isinstance(a, (list, tuple)) else None for a in (by_arg, rev_arg)]:
        agg.violation(V(site, "call-changed-a-list-argument-of-the-caller", case, None, None, py))
        return
    agg.compared += 1
    names = [c._name for c in res._underlying]
    if names != [nm for nm, _ in cols]:
        agg.violation(V(site, "column-names-changed", case, [nm for nm, _ in cols], names, py))
        return
    rcols = {c._name: list(c._underlying) for c in res._underlying}
    got_pos = rcols["pos"]
    if got_pos != want_pos:
        agg.violation(V(site, classify(got_pos, want_pos, keycols, revs, na_last) if n and sorted(got_pos) == list(range(n)) else "not-a-permutation",
                        case, want_pos, got_pos, py))
        agg.outcomes["mismatch"] += 1
        return
    # cells kept together
    for nm, orig in cols:
        if not same_list(rcols[nm], [orig[i] for i in want_pos]):
            agg.violation(V(site, "cells-not-kept-together", case, [orig[i] for i in want_pos], rcols[nm], py))
            return
    if obs(t) != before:
        agg.violation(V(site, "input-modified", case, None, None, py))
    # idempotence: sorting the sorted table changes nothing
    try:
        if form == "name":
            again = res.sort_by(by_arg, reverse=rev_arg, na_last=na_last)
            agg.transitions += 1
            agg.compared += 1
            if list(again._underlying[0]._underlying) != want_pos:
                agg.violation(V(site, "sorting-a-sorted-table-changes-it", case, want_pos, list(again._underlying[0]._underlying), py))
    except Exception as e:
        agg.violation(V(site, "resort-raises-" + type(e).__name__, case))
    agg.outcomes["agree"] += 1


def nontrivial(keys):
    return len(set(keys)) < len(keys) or any(None in k for k in keys)


def run_unit(unit):
    what = unit[0]
    agg = Agg()
    if what == "table":
        _, kind, nkeys, n, first = unit
        tuples = list(itertools.product(ALPHA[kind], repeat=nkeys))
        for keys in itertools.product(tuples, repeat=n):
            if first is not None and (n == 0 or keys[0] != tuple(first)):
                continue
            keys = list(keys)
            agg.states += 1
            if nontrivial(keys):
                agg.nontrivial += 1
            for revs in itertools.product([False, True], repeat=nkeys):
                for na_last in (True, False):
                    for form in FORMS + (("external-same-name", "name-then-namesake") if nkeys >= 2 else ()):
                        rev_forms = ("list", "scalar") if len(set(revs)) == 1 else ("list",)
                        for rf in rev_forms:
                            if rf == "scalar" and form != "name":
                                continue
                            check_table(agg, kind, nkeys, form, keys, revs, rf, na_last)
        agg.sample({"table-sort": kind, "nkeys": nkeys, "rows": n})
    elif what == "vector":
        from serif import Vector
        _, kind, n = unit
        for vals in itertools.product(ALPHA[kind], repeat=n):
            vals = list(vals)
            agg.states += 1
            if len(set(map(repr, vals))) < n or None in vals:
                agg.nontrivial += 1
            for rev in (False, True):
                for na_last in (True, False):
                    for name in (None, "nm"):
                        case = {"vector": vals, "reverse": rev, "na_last": na_last, "name": name}
                        want_pos = spec_sort(list(range(n)), [vals], [rev], na_last)
                        want = [vals[i] for i in want_pos]
                        agg.evals += 1; agg.transitions += 1; agg.compared += 1
                        py = f"from serif import Vector\nprint(list(Vector({vals!r}).sort_by(reverse={rev}, na_last={na_last})), 'expected', {want!r})"
                        try:
                            VARIANT[0] += 1
                            from mc import provenance
                            _, v = provenance.vector_variant(vals, name, VARIANT[0])
                            b = obs(v)
                            res = v.sort_by(reverse=rev, na_last=na_last)
                        except Exception as e:
                            agg.violation(V("vector.sort_by", "raises-" + type(e).__name__, case, want, repr(e)[:80], py))
                            continue
                        got = list(res._underlying)
                        if not same_list(got, want):
                            if sorted(map(repr, got)) != sorted(map(repr, want)):
                                sym = "not-a-permutation"
                            elif [x is None for x in got] != [x is None for x in want]:
                                sym = "none-placement-wrong" + ("-descending" if rev else "-ascending")
                            elif all((a == b) for a, b in zip(got, want)):
                                sym = "ties-not-stable" + ("-descending" if rev else "-ascending")
                            else:
                                sym = "wrong-order"
                            agg.violation(V("vector.sort_by", sym, case, want, got, py))
                            agg.outcomes["mismatch"] += 1
                            continue
                        if res._name != name:
                            agg.violation(V("vector.sort_by", "name-not-kept", case, name, res._name, py))
                        if n and schema_of(res) != schema_of(v):
                            agg.violation(V("vector.sort_by", "dtype-changed", case, schema_of(v), schema_of(res), py))
                        if obs(v) != b:
                            agg.violation(V("vector.sort_by", "input-modified", case, None, None, py))
                        again = res.sort_by(reverse=rev, na_last=na_last)
                        if not same_list(list(again._underlying), want):
                            agg.violation(V("vector.sort_by", "sorting-a-sorted-vector-changes-it", case, want, list(again._underlying), py))
                        agg.outcomes["vector-agree"] += 1
        agg.sample({"vector-sort": kind, "len": n})
    elif what == "large":
        # size thresholds: a sort that switches algorithm / takes a shortcut beyond some length (16, 32, 64 ... rows)
        from serif import Vector, Table
        for n in (15, 16, 17, 31, 32, 33, 63, 64, 65, 100, 129):
            pats = {
                "few-values": [(i * 7) % 5 for i in range(n)],
                "with-none": [None if i % 6 == 2 else (i * 5) % 4 for i in range(n)],
                "descending-run": list(range(n, 0, -1)),
                "already-sorted": list(range(n)),
                "all-equal": [1] * n,
                "strings": [None if i % 9 == 4 else "abc"[(i * 2) % 3] for i in range(n)],
            }
            k1 = [i % 3 for i in range(n)]
            for pname, k0 in pats.items():
                for nkeys in (1, 2):
                    keycols = [k0] if nkeys == 1 else [k0, k1]
                    for revs in itertools.product([False, True], repeat=nkeys):
                        for na_last in (True, False):
                            want = spec_sort(list(range(n)), keycols, list(revs), na_last)
                            for form in ("name", "external"):
                                agg.evals += 1; agg.transitions += 1; agg.states += 1; agg.nontrivial += 1; agg.compared += 1
                                case = {"family": "larger tables", "rows": n, "pattern": pname, "nkeys": nkeys, "reverse": list(revs), "na_last": na_last, "form": form}
                                try:
                                    t = Table([Vector(list(range(n)), name="pos")] + ([Vector(list(c), name=f"k{j}") for j, c in enumerate(keycols)] if form == "name" else []))
                                    by = [f"k{j}" for j in range(nkeys)] if form == "name" else [Vector(list(c)) for c in keycols]
                                    res = t.sort_by(by, reverse=list(revs), na_last=na_last)
                                    got = list(res._underlying[0]._underlying)
                                except Exception as e:
                                    agg.violation(V("table.sort_by.large", "raises-" + type(e).__name__, case, None, repr(e)[:80]))
                                    continue
                                if got != want:
                                    agg.violation(V("table.sort_by.large", classify(got, want, keycols, list(revs), na_last) if sorted(got) == list(range(n)) else "not-a-permutation",
                                                    case, want[:20], got[:20]))
                                else:
                                    agg.outcomes["large-agree"] += 1
                    if nkeys == 1:
                        for rev in (False, True):
                            for na_last in (True, False):
                                agg.evals += 1; agg.transitions += 1; agg.compared += 1
                                wantv = [k0[i] for i in spec_sort(list(range(n)), [k0], [rev], na_last)]
                                case = {"family": "larger vectors", "len": n, "pattern": pname, "reverse": rev, "na_last": na_last}
                                try:
                                    gotv = list(Vector(list(k0)).sort_by(reverse=rev, na_last=na_last)._underlying)
                                except Exception as e:
                                    agg.violation(V("vector.sort_by.large", "raises-" + type(e).__name__, case, None, repr(e)[:80]))
                                    continue
                                if gotv != wantv:
                                    agg.violation(V("vector.sort_by.large", "wrong-order", case, wantv[:20], gotv[:20]))
                                else:
                                    agg.outcomes["large-agree"] += 1
        agg.sample({"family": "larger tables and vectors", "sizes": [15, 16, 17, 31, 32, 33, 63, 64, 65, 100, 129]})
    elif what == "sort-derive-sort":
        # sort a vector, derive a re-ordered vector from the RESULT (reverse slice, stepped slice, index list / vector, mask), sort that
        # again with the same and with other arguments: the second sort is judged on its own input
        from serif import Vector, Table
        _, kind, n = unit
        derivs = [("reversed", lambda s_: s_[::-1]), ("every-2nd-reversed", lambda s_: s_[::-2]), ("rotated-index-list", lambda s_: s_[[(i + 1) % len(s_) for i in range(len(s_))]]),
                  ("index-vector", lambda s_: s_[Vector(list(range(len(s_) - 1, -1, -1)))]), ("copy", lambda s_: s_.copy()), ("mask-all", lambda s_: s_[[True] * len(s_)])]
        for vals in itertools.product(ALPHA[kind], repeat=n):
            vals = list(vals)
            agg.states += 1; agg.nontrivial += 1
            for rev in (False, True):
                for na_last in (True, False):
                    try:
                        s1 = Vector(list(vals)).sort_by(reverse=rev, na_last=na_last)
                    except Exception as e:
                        agg.violation(V("vector.sort_by.history", "raises-" + type(e).__name__, {"vector": vals}))
                        continue
                    for dname, df in derivs:
                        for rev2, na2 in ((rev, na_last), (not rev, na_last)):
                            agg.evals += 1; agg.transitions += 3; agg.compared += 1
                            case = {"vector": vals, "history": [f"sort_by(reverse={rev}, na_last={na_last})", dname, f"sort_by(reverse={rev2}, na_last={na2})"]}
                            try:
                                d_ = df(s1)
                                dv = list(d_._underlying)
                                got = list(d_.sort_by(reverse=rev2, na_last=na2)._underlying)
                            except Exception as e:
                                agg.violation(V("vector.sort_by.history", "raises-" + type(e).__name__, case, None, repr(e)[:80]))
                                continue
                            want = [dv[i] for i in spec_sort(list(range(len(dv))), [dv], [rev2], na2)]
                            if [repr(x) for x in got] != [repr(x) for x in want]:
                                agg.violation(V("vector.sort_by.history", "derived-vector-not-sorted-by-its-own-values", case, want, got))
                            else:
                                agg.outcomes["vector-agree"] += 1
        # the same on tables: sort, re-order the result's rows, sort again
        for keys in itertools.product(ALPHA[kind], repeat=n):
            k0 = list(keys)
            for rev in (False, True):
                agg.evals += 1; agg.transitions += 3; agg.compared += 1
                case = {"keys": k0, "history": [f"sort_by('k', reverse={rev})", "rows reversed", f"sort_by('k', reverse={rev})"]}
                try:
                    t = Table([Vector(list(range(n)), name="pos"), Vector(list(k0), name="k")])
                    s1 = t.sort_by("k", reverse=rev)
                    d_ = s1[::-1]
                    pos_d, k_d = list(d_._underlying[0]._underlying), list(d_._underlying[1]._underlying)
                    got = list(d_.sort_by("k", reverse=rev)._underlying[0]._underlying)
                except Exception as e:
                    agg.violation(V("table.sort_by.history", "raises-" + type(e).__name__, case, None, repr(e)[:80]))
                    continue
                want = [pos_d[i] for i in spec_sort(list(range(len(k_d))), [k_d], [rev], True)]
                if got != want:
                    agg.violation(V("table.sort_by.history", "derived-table-not-sorted-by-its-own-values", case, want, got))
                else:
                    agg.outcomes["agree"] += 1
        agg.sample({"history": ["sort", "derive a re-ordered object from the result", "sort again"], "kind": kind, "len": n})
    elif what == "object-keys":
        # key columns of OBJECT dtype whose values are orderable numbers of several kinds (reached through to_object() or through
        # a stray string that was overwritten): ordered by VALUE like any other key, None last / first
        from serif import Vector, Table
        pool = [1, 2.5, True, None, 0, -1.5, 3]
        for n in (2, 3, 4):
            for vals in itertools.product(pool, repeat=n):
                vals = list(vals)
                if len({type(x) for x in vals if x is not None}) < 2:
                    continue
                agg.states += 1; agg.nontrivial += 1
                for how in ("to_object", "stray-string-overwritten"):
                    for rev in (False, True):
                        for na_last in (True, False):
                            agg.evals += 1; agg.transitions += 2; agg.compared += 1
                            case = {"keys": [repr(x) for x in vals], "object_dtype_through": how, "reverse": rev, "na_last": na_last}
                            try:
                                if how == "to_object":
                                    k = Vector(list(vals)).to_object()
                                else:
                                    k = Vector(list(vals) + ["stray"])
                                    k[n] = vals[0] if vals[0] is not None else 0
                                    k = k[0:n]
                                if k.schema() is None or k.schema().kind is not object:
                                    agg.skipped["not-an-object-column"] += 1
                                    continue
                                t = Table([Vector(list(range(n)), name="pos"), k])
                                kv = list(t._underlying[1]._underlying)
                                got = list(t.sort_by(t._underlying[1], reverse=rev, na_last=na_last)._underlying[0]._underlying)
                                gotv = [repr(x) for x in k.sort_by(reverse=rev, na_last=na_last)._underlying]
                            except Exception as e:
                                agg.violation(V("table.sort_by.object-keys", "raises-" + type(e).__name__, case, None, repr(e)[:80]))
                                continue
                            want = spec_sort(list(range(n)), [kv], [rev], na_last)
                            if got != want:
                                agg.violation(V("table.sort_by.object-keys", "wrong-order", case, want, got))
                            elif gotv != [repr(kv[i]) for i in want]:
                                agg.violation(V("vector.sort_by.object-keys", "wrong-order", case, [repr(kv[i]) for i in want], gotv))
                            else:
                                agg.outcomes["agree"] += 1
    elif what == "odd-names":
        # tables whose columns share a name or have none (join results, transposed tables, arithmetic results): every column comes
        # back, in place, with its cells
        from serif import Vector, Table
        layouts = [["k", "v", "k", "v"], [None, None, None], ["k", None, "k"], ["", "", "x"], ["a", "A", "a"]]
        keys = [2, 0, 1, 0]
        for names in layouts:
            for rev in (False, True):
                for by_kind in ("external", "first-column-object", "index-of-column"):
                    agg.evals += 1; agg.transitions += 1; agg.states += 1; agg.nontrivial += 1; agg.compared += 1
                    case = {"column_names": names, "reverse": rev, "key": by_kind}
                    cols = [[10 * (j + 1) + i for i in range(4)] for j in range(len(names))]
                    cols[0] = list(keys)
                    try:
                        t = Table([Vector(list(c), name=nm) for c, nm in zip(cols, names)])
                        by = Vector(list(keys)) if by_kind == "external" else t._underlying[0]
                        res = t.sort_by(by, reverse=rev)
                    except Exception as e:
                        agg.violation(V("table.sort_by.odd-names", "raises-" + type(e).__name__, case, None, repr(e)[:80]))
                        continue
                    order = spec_sort(list(range(4)), [list(keys)], [rev], True)
                    want = [[c[i] for i in order] for c in cols]
                    got = [list(c._underlying) for c in res._underlying]
                    gnames = [c._name for c in res._underlying]
                    if got != want:
                        agg.violation(V("table.sort_by.odd-names", "cells-not-kept-together" if len(got) == len(want) else "columns-lost", case, want, got))
                    elif gnames != names:
                        agg.violation(V("table.sort_by.odd-names", "column-names-changed", case, names, gnames))
                    else:
                        agg.outcomes["agree"] += 1
    elif what == "rename":
        # rename columns through live views so that a NAME moves to another column, then sort by that name
        from serif import Vector, Table
        _, kind = unit
        A = ALPHA[kind]
        for k0 in itertools.product(A, repeat=3):
            for k1 in itertools.product(A, repeat=3):
                for warm in (False, True):
                    for rev in (False, True):
                        agg.evals += 1; agg.transitions += 3; agg.states += 1; agg.nontrivial += 1; agg.compared += 1
                        case = {"kind": kind, "k0": list(k0), "k1": list(k1), "reverse": rev, "map_warm_before_rename": warm,
                                "history": ["(touch accessor)", "swap the names k0/k1 through live column views", "sort_by('k0')"]}
                        try:
                            t = Table([Vector(list(range(3)), name="pos"), Vector(list(k0), name="k0"), Vector(list(k1), name="k1")])
                            if warm:
                                t.k0; dir(t)
                            c0, c1 = t.cols()[1], t.cols()[2]
                            c0.name = "k1"
                            c1.name = "k0"
                            res = t.sort_by("k0", reverse=rev)
                        except Exception as e:
                            agg.violation(V("table.sort_by.after-rename", "raises-" + type(e).__name__, case, None, repr(e)[:80]))
                            continue
                        want = spec_sort([0, 1, 2], [list(k1)], [rev], True)     # 'k0' now names the former k1 column
                        got = list(res._underlying[0]._underlying)
                        if got != want:
                            old = spec_sort([0, 1, 2], [list(k0)], [rev], True)
                            agg.violation(V("table.sort_by.after-rename", "sorted-by-the-column-that-used-to-carry-the-name" if got == old else "wrong-order",
                                            case, want, got))
                        else:
                            agg.outcomes["rename-sort-agree"] += 1
        agg.sample({"history": ["swap names through live views", "sort_by(name)"], "kind": kind})
    elif what == "swap":
        # sort, exchange two key cells with two in-place writes (for hash-equal values the column's fingerprint does not
        # move), sort again
        from serif import Vector
        _, kind, policy = unit
        if policy != "fresh":
            core.reset_globals(policy)
        for n in (2, 3):
            for keys in itertools.product([x for x in ALPHA[kind] if x is not None], repeat=n):
                for i, j in itertools.combinations(range(n), 2):
                    if keys[i] == keys[j]:
                        continue
                    for path in ("cell", "view"):
                        for rev in (False, True):
                            agg.evals += 1; agg.transitions += 4; agg.states += 1; agg.nontrivial += 1; agg.compared += 1
                            case = {"kind": kind, "keys": list(keys), "swap": [i, j], "path": path, "reverse": rev, "allocator": policy,
                                    "history": ["sort_by", "two writes exchanging two key cells", "sort_by again"]}
                            try:
                                t, by, cols = build([(k,) for k in keys], 1, "name")
                                t.sort_by("k0", reverse=rev)
                                k2 = list(keys); k2[i], k2[j] = k2[j], k2[i]
                                if path == "cell":
                                    t[i, "k0"] = k2[i]; t[j, "k0"] = k2[j]
                                else:
                                    t["k0"][i] = k2[i]; t["k0"][j] = k2[j]
                                r2 = t.sort_by("k0", reverse=rev)
                            except Exception as e:
                                agg.violation(V("table.sort_by.after-swap", "raises-" + type(e).__name__, case, None, repr(e)[:80]))
                                continue
                            want = spec_sort(list(range(n)), [k2], [rev], True)
                            got = list(r2["pos"]._underlying)
                            if got != want or not same_list(list(r2["k0"]._underlying), [k2[x] for x in want]):
                                agg.violation(V("table.sort_by.after-swap", "stale-order-after-exchanging-two-cells", case, want, got))
                            else:
                                agg.outcomes["swap-sort-agree"] += 1
        agg.sample({"history": ["sort", "exchange two key cells", "sort"], "kind": kind, "allocator": policy})
    elif what == "hist":
        from serif import Vector
        _, kind, maxn = unit
        for n in range(1, maxn + 1):
            for keys in itertools.product(ALPHA[kind], repeat=n):
                for idx in range(n):
                    for new in ALPHA[kind]:
                        if new == keys[idx] or new is None:
                            continue
                        for path in ("cell", "view", "replace"):
                            for rev in (False, True):
                                hist_one(agg, kind, list(keys), idx, new, path, rev)
        agg.sample({"history": ["sort_by", "write key cell (cell|view|replace)", "sort_by again"], "kind": kind})
    return agg


def hist_one(agg, kind, keys, idx, new, path, rev):
    from serif import Vector
    case = {"kind": kind, "keys": keys, "hist": [idx, new, path, rev], "history": ["sort_by", f"write k0[{idx}]={new!r} via {path}", "sort_by again"]}
    agg.states += 1; agg.nontrivial += 1; agg.evals += 1
    try:
        t, by, cols = build([(k,) for k in keys], 1, "name")
        r1 = t.sort_by("k0", reverse=rev)
        if path == "cell":
            t[idx, "k0"] = new
        elif path == "view":
            t["k0"][idx] = new
        else:
            vals = list(keys); vals[idx] = new
            t.k0 = Vector(vals)
        r2 = t.sort_by("k0", reverse=rev)
        agg.transitions += 3
    except Exception as e:
        agg.violation(V(f"table.sort_by.after-write.{path}", "raises-" + type(e).__name__, case, None, repr(e)[:80]))
        return
    k2 = list(keys); k2[idx] = new
    n = len(keys)
    w1 = spec_sort(list(range(n)), [keys], [rev], True)
    w2 = spec_sort(list(range(n)), [k2], [rev], True)
    agg.compared += 2
    g1 = list(r1["pos"]._underlying); g2 = list(r2["pos"]._underlying)
    if g1 != w1:
        agg.violation(V(f"table.sort_by.after-write.{path}", "earlier-result-wrong-or-changed", case, w1, g1))
    elif g2 != w2 or not same_list(list(r2["k0"]._underlying), [k2[i] for i in w2]):
        agg.violation(V(f"table.sort_by.after-write.{path}", "wrong-result-after-in-place-write", case, w2, g2))
    else:
        agg.outcomes["hist-agree"] += 1


def check(ctx):
    N = ctx.pick(5, 6)
    units = []
    for kind in ALPHA:
        for n in range(0, N + 1):
            if kind in TABLE_KINDS or n <= 3:
                if n >= 4:
                    for f in ALPHA[kind]:
                        units.append(("table", kind, 1, n, (f,)))
                else:
                    units.append(("table", kind, 1, n, None))
            units.append(("vector", kind, n))
    N2 = ctx.pick(3, 4)
    for kind in ("int", "str", "strp"):
        for n in range(0, (N2 if (ctx.thorough or kind == "int") else 3) + 1):
            if n >= 3:
                for f in itertools.product(ALPHA[kind], repeat=2):
                    units.append(("table", kind, 2, n, f))
            else:
                units.append(("table", kind, 2, n, None))
    for n in range(0, ctx.pick(2, 3) + 1):
        if n >= 2:
            for f in itertools.product(ALPHA["int"], repeat=3):
                units.append(("table", "int", 3, n, f))
        else:
            units.append(("table", "int", 3, n, None))
    units += [("hist", k, 3) for k in ("int", "str")]
    units += [("rename", k) for k in ("int", "str")]
    units += [("swap", k, pol) for k in ("intc", "int", "str") for pol in ("fresh", "recycle")]
    units += [("hist", "intc", 3)]
    units += [("large",)]
    units += [("sort-derive-sort", k, n) for k in ("int", "str") for n in (2, 3, 4)]
    units += [("object-keys",), ("odd-names",)]
    agg = core.merge_all(core.pmap(run_unit, units))
    agg.notes["bound"] = f"tables rows<={N} (1 key) / <={N2} (2 keys) / <={ctx.pick(2,3)} (3 keys); vectors len<={N}; 8 key alphabets incl. strings one of which is a prefix of the other"
    agg.notes["exhaustive"] = True
    return agg


def coverage_goals(ctx, agg):
    return [k for k in ("agree", "vector-agree", "hist-agree") if agg.outcomes.get(k, 0) < 100]


def replay(rec):
    case = rec.get("case") or {}
    agg = Agg()
    if "hist" in case:
        idx, new, path, rev = case["hist"]
        hist_one(agg, case["kind"], case["keys"], idx, new, path, rev)
        return set(agg.viol)
    if "reverse_form" in case:
        VARIANT[0] = int(case.get("variant", 1)) - 1
        check_table(agg, case["kind"], case["nkeys"], case["form"], [tuple(k) for k in case["keys"]], case["reverse"], case["reverse_form"], case["na_last"])
        return set(agg.viol)
    return None
