"""C05 — elementwise operations equal the Python scalar operation, shape preserved (Engine E)."""
from __future__ import annotations

import itertools
import operator
from datetime import date, datetime, timedelta

from mc import core
from mc.core import Agg, V
from mc.models import canon_elem, obs, same_list, same_value

RULE = ("7 binary operators x 6 operand forms (vector, scalar, list, tuple, reflected scalar, reflected list) x all kind pairs over "
        "bool/int/float/complex/str/date(+timedelta) x every vector of length 0..L over a 2-3 value alphabet per kind; unary - + abs; length "
        "mismatches of every form; table-with-scalar and table-with-table on all small tables; every public str/int/float/date method or "
        "property reachable by broadcasting x an argument menu x sizes 0..3 x every None placement. Cases where Python itself raises for "
        "some element are skipped and counted. non-trivial = operands of different kinds or a non-commutative operator with distinct operands")
ASSUMPTIONS = ["scalar left operands are of types whose own operator returns NotImplemented for a Vector (str % vector is str formatting, excluded)",
               "date.today / fromtimestamp-like clock or timezone dependent methods are excluded",
               "result dtype is judged by C03/C04, not here"]

D1, D2 = date(2020, 2, 28), date(2021, 12, 31)
ALPHA = {
    "bool": [True, False],
    "int": [0, 1, -2],
    "float": [0.5, -1.5, 2.0],
    "complex": [1j, 2 + 0j],
    "str": ["a", "B", ""],
    "date": [D1, D2],
    "fmt": ["%s", "<%s>", "%r"],          # str % x is printf formatting: defined by Python for every right operand
    "bytes": [b"a", b"", b"xy"],          # kinds whose + is not commutative although they are not str
    "tuple": [(1,), (), (2, 3)],
    "mixnum": [7, 2.5, -3],               # a float-kind vector that holds ints next to floats: each element is combined AS IT IS (7 // 2 is 3, not 3.0)
}
SCALARS = dict(ALPHA, timedelta=[timedelta(days=1), timedelta(days=-40)])
OPS = {"add": operator.add, "sub": operator.sub, "mul": operator.mul, "truediv": operator.truediv,
       "floordiv": operator.floordiv, "mod": operator.mod, "pow": operator.pow}
UNARY = {"neg": operator.neg, "pos": operator.pos, "abs": operator.abs}


def py_elementwise(op, xs, ys):
    """Python's own result or None when Python raises for some pair."""
    out = []
    try:
        for x, y in zip(xs, ys):
            out.append(op(x, y))
    except Exception:
        return None
    return out


def result_list(res):
    if type(res).__name__ == "Table" or not hasattr(res, "_underlying"):
        return None
    return list(res._underlying)


def judge(agg, site, res, want, case, operands, py=None):
    agg.compared += 1
    got = result_list(res)
    if got is None:
        agg.violation(V(site, "result-not-a-vector", case, want, repr(res)[:80], py))
        return False
    for o in operands:
        if res is o:
            agg.violation(V(site, "result-is-operand", case, None, None, py))
            return False
    if len(got) != len(want):
        agg.violation(V(site, "wrong-length", case, want, got, py))
        return False
    if not same_list(got, want):
        # operand order swapped?
        sym = "wrong-values"
        if case.get("swapped_would_be") is not None and same_list(got, case["swapped_would_be"]):
            sym = "operands-in-wrong-order"
        agg.violation(V(site, sym, case, want, got, py))
        return False
    return True


def unit_binary(unit):
    from serif import Vector
    _, ka, kb, maxlen = unit
    agg = Agg()
    A, B = ALPHA[ka], SCALARS[kb] if kb == "timedelta" else ALPHA[kb]
    for n in range(0, maxlen + 1):
        for xs in itertools.product(A, repeat=n):
            xs = list(xs)
            ylists = list(itertools.product(B, repeat=n)) if kb != "timedelta" else [tuple([B[0]] * n), tuple(B[:n]) if n <= len(B) else tuple([B[1]] * n)]
            for ys in ylists:
                ys = list(ys)
                for opn, op in OPS.items():
                    want = py_elementwise(op, xs, ys)
                    rwant = py_elementwise(op, ys, xs)
                    agg.states += 1
                    nt = (ka != kb) or (opn in ("sub", "truediv", "floordiv", "mod", "pow") and xs != ys)
                    forms = []
                    if kb != "timedelta":
                        forms += [("vv", want), ("vl", want), ("vt", want), ("lv", rwant)]
                        if n and opn in ("add", "sub", "mul"):
                            # the same elements held by an OBJECT-dtype vector (to_object()) on the left / on the right
                            forms += [("ov", want), ("vo", want)]
                    else:
                        forms += [("vl", want), ("lv", rwant)]
                    for form, w in forms:
                        if w is None:
                            agg.skipped["python-raises"] += 1
                            continue
                        if nt:
                            agg.nontrivial += 1
                        agg.evals += 1; agg.transitions += 1
                        case = {"op": opn, "left": xs, "right": ys, "form": form, "kinds": [ka, kb]}
                        v = Vector(xs)
                        bv = obs(v)
                        try:
                            if form == "vv":
                                o = Vector(ys); res = op(v, o); operands = [v, o]
                            elif form == "ov":
                                v = Vector(xs).to_object(); bv = obs(v)
                                o = Vector(ys); res = op(v, o); operands = [v, o]
                            elif form == "vo":
                                o = Vector(ys).to_object(); res = op(v, o); operands = [v, o]
                            elif form == "vl":
                                res = op(v, list(ys)); operands = [v]
                            elif form == "vt":
                                res = op(v, tuple(ys)); operands = [v]
                            else:
                                res = op(list(ys), v); operands = [v]
                                case["swapped_would_be"] = want
                        except Exception as e:
                            agg.violation(V(f"binary.{opn}.{form}", "raises-" + type(e).__name__, case, w, repr(e)[:100]))
                            continue
                        if judge(agg, f"binary.{opn}.{form}", res, w, case, operands):
                            agg.outcomes[f"{form}-agree"] += 1
                        if obs(v) != bv:
                            agg.violation(V(f"binary.{opn}.{form}", "operand-modified", case))
            # scalar forms: one scalar against the whole vector
            for y in B:
                if isinstance(y, (tuple, list)):
                    continue            # a tuple operand is a SEQUENCE of per-element operands, never one scalar
                for opn, op in OPS.items():
                    want = py_elementwise(op, xs, [y] * n)
                    rwant = py_elementwise(op, [y] * n, xs)
                    agg.states += 1
                    for form, w in (("vs", want), ("sv", rwant)):
                        if w is None:
                            agg.skipped["python-raises"] += 1
                            continue
                        if form == "sv" and isinstance(y, (str, bytes)) and opn == "mod":
                            agg.skipped["str-%-is-formatting"] += 1
                            continue
                        if ka != kb:
                            agg.nontrivial += 1
                        agg.evals += 1; agg.transitions += 1
                        case = {"op": opn, "left": xs, "right": y, "form": form, "kinds": [ka, kb]}
                        if form == "sv":
                            case["swapped_would_be"] = want
                        v = Vector(xs)
                        try:
                            res = op(v, y) if form == "vs" else op(y, v)
                        except Exception as e:
                            agg.violation(V(f"binary.{opn}.{form}", "raises-" + type(e).__name__, case, w, repr(e)[:100]))
                            continue
                        if judge(agg, f"binary.{opn}.{form}", res, w, case, [v]):
                            agg.outcomes[f"{form}-agree"] += 1
    agg.sample({"binary": [ka, kb], "max_len": maxlen})
    return agg


def unit_binary_long(unit):
    """size thresholds: operands of 17 / 33 / 65 / 129 elements (cycled alphabets, the right operand shifted by one so that the
    operand order matters), every operator and operand form, plus a length mismatch of one at these sizes"""
    from serif import Vector
    _, ka, kb = unit
    agg = Agg()
    A, B = ALPHA[ka], ALPHA[kb]
    for n in (17, 33, 65, 129):
        xs = [A[i % len(A)] for i in range(n)]
        ys = [B[(i + 1) % len(B)] for i in range(n)]
        for opn, op in list(OPS.items()) + list(UNARY.items()):
            if opn in UNARY:
                try:
                    want = [op(x) for x in xs]
                except Exception:
                    continue
                agg.evals += 1; agg.transitions += 1; agg.states += 1
                try:
                    if judge(agg, f"unary.{opn}.long", op(Vector(list(xs))), want, {"op": opn, "kind": ka, "len": n}, []):
                        agg.outcomes["long-agree"] += 1
                except Exception as e:
                    agg.violation(V(f"unary.{opn}.long", "raises-" + type(e).__name__, {"op": opn, "kind": ka, "len": n}, None, repr(e)[:80]))
                continue
            want, rwant = py_elementwise(op, xs, ys), py_elementwise(op, ys, xs)
            swant, rswant = py_elementwise(op, xs, [ys[0]] * n), py_elementwise(op, [ys[0]] * n, xs)
            for form, w in (("vv", want), ("vl", want), ("vt", want), ("lv", rwant), ("vs", swant), ("sv", rswant)):
                if form in ("vs", "sv") and isinstance(ys[0], (tuple, list)):
                    continue
                if w is None:
                    agg.skipped["python-raises"] += 1
                    continue
                if form == "sv" and isinstance(ys[0], (str, bytes)) and opn == "mod":
                    continue
                agg.evals += 1; agg.transitions += 1; agg.states += 1; agg.nontrivial += 1
                case = {"op": opn, "kinds": [ka, kb], "len": n, "form": form, "family": "long operands"}
                v = Vector(list(xs))
                try:
                    res = {"vv": lambda: op(v, Vector(list(ys))), "vl": lambda: op(v, list(ys)), "vt": lambda: op(v, tuple(ys)), "lv": lambda: op(list(ys), v),
                           "vs": lambda: op(v, ys[0]), "sv": lambda: op(ys[0], v)}[form]()
                except Exception as e:
                    agg.violation(V(f"binary.{opn}.{form}.long", "raises-" + type(e).__name__, case, None, repr(e)[:80]))
                    continue
                if judge(agg, f"binary.{opn}.{form}.long", res, w, case, [v]):
                    agg.outcomes["long-agree"] += 1
            for form in ("vv", "vl"):
                agg.evals += 1; agg.compared += 1
                try:
                    r = op(Vector(list(xs)), Vector(list(ys[:-1])) if form == "vv" else list(ys) + [ys[0]])
                    agg.violation(V(f"binary.{opn}.{form}.long", "length-mismatch-accepted", {"op": opn, "len": n}, "error", len(r._underlying) if hasattr(r, "_underlying") else None))
                except Exception:
                    agg.outcomes["length-mismatch-raises"] += 1
    return agg


def unit_mismatch(unit):
    """Differing lengths raise: nothing truncated, recycled or broadcast."""
    from serif import Vector
    _, kind = unit
    agg = Agg()
    A = ALPHA[kind]
    for n, m in [(0, 1), (1, 0), (1, 2), (2, 1), (1, 3), (3, 1), (2, 3), (3, 2), (0, 2)]:
        xs = [A[i % len(A)] for i in range(n)]
        ys = [A[(i + 1) % len(A)] for i in range(m)]
        for opn, op in OPS.items():
            for form in ("vv", "vl", "vt", "lv", "tv"):
                if form == "vv" and m == 0:
                    other = Vector([])
                agg.evals += 1; agg.transitions += 1; agg.states += 1; agg.compared += 1; agg.nontrivial += 1
                case = {"op": opn, "left": xs, "right": ys, "form": form}
                try:
                    v = Vector(xs)
                    if form == "vv":
                        res = op(v, Vector(ys))
                    elif form == "vl":
                        res = op(v, list(ys))
                    elif form == "vt":
                        res = op(v, tuple(ys))
                    elif form == "lv":
                        res = op(list(ys), v)
                    else:
                        res = op(tuple(ys), v)
                except Exception:
                    agg.outcomes["length-mismatch-raises"] += 1
                    continue
                agg.violation(V(f"binary.{opn}.{form}", "length-mismatch-accepted", case, "error", result_list(res)))
    return agg


def unit_unary(unit):
    from serif import Vector
    _, kind, maxlen = unit
    agg = Agg()
    for n in range(0, maxlen + 1):
        for xs in itertools.product(ALPHA[kind], repeat=n):
            xs = list(xs)
            for opn, op in UNARY.items():
                try:
                    want = [op(x) for x in xs]
                except Exception:
                    agg.skipped["python-raises"] += 1
                    continue
                agg.evals += 1; agg.transitions += 1; agg.states += 1
                if any(not same_value(a, b) for a, b in zip(want, xs)):
                    agg.nontrivial += 1
                case = {"op": opn, "operand": xs, "kind": kind}
                try:
                    v = Vector(xs)
                    res = op(v)
                except Exception as e:
                    agg.violation(V(f"unary.{opn}", "raises-" + type(e).__name__, case, want, repr(e)[:80]))
                    continue
                if judge(agg, f"unary.{opn}", res, want, case, [v]):
                    agg.outcomes["unary-agree"] += 1
    return agg


def unit_dates(unit):
    from serif import Vector
    agg = Agg()
    ds = ALPHA["date"]
    for n in range(0, 3):
        for xs in itertools.product(ds + [None], repeat=n):
            xs = list(xs)
            if n and all(x is None for x in xs):
                continue
            for days in (0, 1, -40, 366):
                want = [None if x is None else date.fromordinal(x.toordinal() + days) for x in xs]
                agg.evals += 1; agg.transitions += 1; agg.states += 1; agg.nontrivial += 1
                case = {"dates": xs, "plus": days}
                try:
                    v = Vector(xs); res = v + days
                    if judge(agg, "date.add-int", res, want, case, [v]):
                        agg.outcomes["date-agree"] += 1
                except Exception as e:
                    agg.violation(V("date.add-int", "raises-" + type(e).__name__, case, want, repr(e)[:80]))
            for dl in itertools.product([0, 3, -1], repeat=n):
                want = [None if x is None else date.fromordinal(x.toordinal() + d) for x, d in zip(xs, dl)]
                agg.evals += 1; agg.transitions += 1; agg.states += 1
                case = {"dates": xs, "plus_vector": list(dl)}
                if n == 0:
                    continue
                try:
                    v = Vector(xs); res = v + Vector(list(dl))
                    if judge(agg, "date.add-intvector", res, want, case, [v]):
                        agg.outcomes["date-agree"] += 1
                except Exception as e:
                    agg.violation(V("date.add-intvector", "raises-" + type(e).__name__, case, want, repr(e)[:80]))
            for td in SCALARS["timedelta"]:
                for sign, op in (("+", operator.add), ("-", operator.sub)):
                    want = [None if x is None else op(x, td) for x in xs]
                    agg.evals += 1; agg.transitions += 1; agg.states += 1
                    case = {"dates": xs, "op": sign, "timedelta_days": td.days}
                    py = f"from serif import Vector\nfrom datetime import date, timedelta\nprint(list(Vector({xs!r}) {sign} timedelta(days={td.days})))"
                    if n == 0:
                        continue
                    try:
                        v = Vector(xs); res = op(v, td)
                        if judge(agg, f"date.{'add' if sign == '+' else 'sub'}-timedelta", res, want, case, [v], py):
                            agg.outcomes["date-agree"] += 1
                    except Exception as e:
                        agg.violation(V(f"date.{'add' if sign == '+' else 'sub'}-timedelta", "raises-" + type(e).__name__, case, want, repr(e)[:80], py))
    # length mismatch date + int vector
    for n, m in ((1, 2), (2, 1), (2, 3)):
        agg.evals += 1; agg.compared += 1
        try:
            res = Vector(ds[:1] * n) + Vector([1] * m)
            agg.violation(V("date.add-intvector", "length-mismatch-accepted", {"n": n, "m": m}, "error", result_list(res)))
        except Exception:
            agg.outcomes["length-mismatch-raises"] += 1
    return agg


# ---------------------------------------------------------------------------- tables
def unit_table(unit):
    from serif import Vector, Table
    agg = Agg()
    colsets = [
        [("a", [1, 2]), ("b", [0.5, 1.5])],
        [("a", [3]), ("b", [-2])],
        [("a", [1, -2]), ("a", [2, 3])],
        [("x", [True, False])],
        [("s", ["p", "q"]), ("t", ["r", ""])],
        [("a", [1, None]), ("b", [None, 2.5])],
        [("a", []), ("b", [])],
    ]
    scal = [2, 0.5, -1, True, "z", 1j]

    def mk(cs):
        return Table([Vector(list(v), name=n) for n, v in cs])

    for cs in colsets:
        for opn, op in OPS.items():
            for y in scal:
                want = []
                okk = True
                for _, vals in cs:
                    w = py_elementwise(op, [x for x in vals if x is not None], [y] * len([x for x in vals if x is not None]))
                    if w is None:
                        okk = False
                        break
                    it = iter(w)
                    want.append([None if x is None else next(it) for x in vals])
                if not okk:
                    agg.skipped["python-raises"] += 1
                    continue
                agg.evals += 1; agg.transitions += 1; agg.states += 1; agg.nontrivial += 1
                case = {"table": cs, "op": opn, "scalar": y}
                try:
                    t = mk(cs); b = obs(t)
                    res = op(t, y)
                except Exception as e:
                    agg.violation(V(f"table.{opn}.scalar", "raises-" + type(e).__name__, case, want, repr(e)[:80]))
                    continue
                agg.compared += 1
                if type(res).__name__ != "Table":
                    if len(cs[0][1]) == 0:
                        agg.skipped["zero-row-table-result-shape"] += 1
                        continue
                    agg.violation(V(f"table.{opn}.scalar", "result-not-a-table", case, want, repr(res)[:80]))
                    continue
                got = [list(c._underlying) for c in res._underlying]
                if len(got) != len(want) or not all(same_list(g, w) for g, w in zip(got, want)):
                    agg.violation(V(f"table.{opn}.scalar", "not-columnwise-vector-op", case, want, got))
                else:
                    agg.outcomes["table-scalar-agree"] += 1
                if obs(t) != b:
                    agg.violation(V(f"table.{opn}.scalar", "operand-modified", case))
            for cs2 in colsets:
                if len(cs2[0][1]) != len(cs[0][1]):
                    continue
                case = {"left": cs, "right": cs2, "op": opn}
                if len(cs2) != len(cs):
                    agg.evals += 1; agg.transitions += 1; agg.compared += 1
                    try:
                        res = op(mk(cs), mk(cs2))
                        agg.violation(V(f"table.{opn}.table", "width-mismatch-accepted", case, "error", repr(res)[:80]))
                    except Exception:
                        agg.outcomes["table-width-mismatch-raises"] += 1
                    continue
                want = []
                okk = True
                for (_, a), (_, b2) in zip(cs, cs2):
                    pairs = [(x, y) for x, y in zip(a, b2) if x is not None and y is not None]
                    w = py_elementwise(op, [p[0] for p in pairs], [p[1] for p in pairs])
                    if w is None:
                        okk = False
                        break
                    it = iter(w)
                    want.append([None if (x is None or y is None) else next(it) for x, y in zip(a, b2)])
                if not okk:
                    agg.skipped["python-raises"] += 1
                    continue
                agg.evals += 1; agg.transitions += 1; agg.states += 1; agg.nontrivial += 1
                try:
                    l, r = mk(cs), mk(cs2)
                    res = op(l, r)
                except Exception as e:
                    agg.violation(V(f"table.{opn}.table", "raises-" + type(e).__name__, case, want, repr(e)[:80]))
                    continue
                agg.compared += 1
                if type(res).__name__ != "Table":
                    if len(cs[0][1]) == 0:
                        agg.skipped["zero-row-table-result-shape"] += 1
                        continue
                    agg.violation(V(f"table.{opn}.table", "result-not-a-table", case, want, repr(res)[:80]))
                    continue
                got = [list(c._underlying) for c in res._underlying]
                if len(got) != len(want) or not all(same_list(g, w) for g, w in zip(got, want)):
                    agg.violation(V(f"table.{opn}.table", "not-columnwise-vector-op", case, want, got))
                else:
                    agg.outcomes["table-table-agree"] += 1
    return agg


# ---------------------------------------------------------------------------- broadcast methods / properties
ARG_MENU = [(), ("a",), ("a", "b"), (1,), (2,), (3, "*"), ("utf-8",), (2, "big"), ("%Y-%m",), ({"a": 1},),
            (["x", "y"],), ("B",), ("",), (0,), (8,), ("{}",), ("x", "y", 1), (None,), ("0x1p0",), ("2020-02-29",), (730000,),
            (2020, 1, 1), ("ab", "cd"), ({97: "z"},)]
KW_MENU = [{"name": "n"}, {"sep": "-"}, {"maxsplit": 1}, {"sep": None, "maxsplit": 1}, {"keepends": True}, {"encoding": "utf-8"}, {"encoding": "ascii", "errors": "replace"},
           {"tabsize": 2}, {"year": 2001}, {"month": 3, "day": 4}, {"length": 4, "byteorder": "big"}, {"length": 4, "byteorder": "little", "signed": True}, {"sep": " ", "timespec": "hours"},
           {"chars": None}, {"prefix": "a"}, {"width": 5}, {"fillchar": "*"}]
EXCLUDE = {"today", "fromtimestamp", "utcfromtimestamp", "now", "utcnow", "max", "min", "resolution", "from_bytes"}
METHOD_KINDS = {
    "str": (str, ["a", "B c", "", "a1\tb", "xyx", "{name}!"]),
    "int": (int, [0, 5, -3, 255]),
    "float": (float, [0.5, -2.0, 3.25]),
    "date": (date, [D1, D2]),
    # a float vector that holds an int (an int belongs to the float kind): element i's OWN method is what must be applied
    "float+int": (float, [1, 2.5, -3, 0.5]),
}


def unit_methods(unit):
    from serif import Vector
    _, kind, sizes = unit[:3]
    policy = unit[3] if len(unit) > 3 else "fresh"
    if policy != "fresh":
        core.reset_globals(policy)          # CPython-like recycling of storage identities for this pass
    pytype, alpha = METHOD_KINDS[kind]
    agg = Agg()
    generic = set(dir(Vector))
    names = [n for n in dir(pytype) if not n.startswith("_") and n not in EXCLUDE and n not in generic]
    # data sets: typed-empty, and sizes 1..3 with None at every subset of positions
    datasets = []
    for n in sizes:
        base = [alpha[i % len(alpha)] for i in range(n)]
        for mask in itertools.product([False, True], repeat=n):
            if n and all(mask):
                continue
            datasets.append([None if m else b for b, m in zip(base, mask)])
    for name in (names if policy == "fresh" else []):
        cls_attr = getattr(pytype, name)
        is_prop = not callable(cls_attr)
        menus = [()] if is_prop else list(ARG_MENU) + [("__kw__", kw) for kw in KW_MENU]
        for args in menus:
            kwargs = {}
            if args and args[0] == "__kw__":
                kwargs, args = args[1], ()
            # Python must accept the call on every alphabet element
            try:
                for a in alpha:
                    getattr(a, name) if is_prop else getattr(a, name)(*args, **kwargs)
            except Exception:
                agg.skipped["python-rejects-args"] += 1
                continue
            for data in datasets:
                want = [None if x is None else (getattr(x, name) if is_prop else getattr(x, name)(*args, **kwargs)) for x in data]
                agg.evals += 1; agg.transitions += 1; agg.states += 1
                if None in data:
                    agg.nontrivial += 1
                case = {"kind": kind, "method": name, "args": list(args), "kwargs": kwargs, "data": data, "property": is_prop}
                py = (f"from serif import Vector\nfrom datetime import date\nv = Vector({data!r})\n" +
                      (f"print(list(v.{name}))" if is_prop else f"print(list(v.{name}(*{args!r})))") + f"  # expected {want!r}")
                for declared in ((False, True) if (None in data and any(x is not None for x in data)) else (False,)):
                  # declared=True: the caller states the dtype (non-nullable) although the data holds None;
                  # broadcasting must still pass None through
                  case = dict(case, declared_dtype=declared)
                  try:
                    if declared:
                        v = Vector(list(data), dtype=pytype)
                    elif data:
                        v = Vector(list(data))
                    else:
                        v = Vector([], dtype=pytype)
                    b = obs(v)
                    res = getattr(v, name) if is_prop else getattr(v, name)(*args, **kwargs)
                  except Exception as e:
                    agg.violation(V(f"method.{kind}.{name}", "raises-" + type(e).__name__ + ("-with-None" if None in data else ("-on-empty" if not data else "")),
                                    case, want, repr(e)[:100], py))
                    continue
                  agg.compared += 1
                  got = result_list(res)
                  if got is None:
                    agg.violation(V(f"method.{kind}.{name}", "result-not-a-vector", case, want, repr(res)[:60], py))
                    continue
                  if len(got) != len(want) or not same_list(got, want):
                    sym = "wrong-length" if len(got) != len(want) else ("none-not-kept" if any((w is None) != (g is None) for g, w in zip(got, want)) else "wrong-values")
                    agg.violation(V(f"method.{kind}.{name}", sym, case, want, got, py))
                  else:
                    agg.outcomes["method-agree"] += 1
                  if obs(v) != b:
                    agg.violation(V(f"method.{kind}.{name}", "operand-modified", case, None, None, py))
    # "at every data size": long vectors (around 256 / 300 / 1025 elements) whose cells include the awkward ones - a NUL character, a
    # line break, a separator-like text, the empty string - with and without one None far inside: element i is still the method of element i
    if policy == "fresh":
        awkward = {"str": ["a\x00b", "line\nbreak", "a|b,c;d", "", "ß", "x"], "int": [0, -1, 2 ** 70], "float": [0.0, -0.0, 1e300], "date": [D1, D2],
                   "float+int": [1, 2.5]}.get(kind, list(alpha))
        for name in names:
            cls_attr = getattr(pytype, name)
            is_prop = not callable(cls_attr)
            try:
                for a in awkward + list(alpha):
                    getattr(a, name) if is_prop else getattr(a, name)()
            except Exception:
                continue
            for size in (255, 256, 257, 300, 1025):
                for with_none in (False, True):
                    data = [(awkward + list(alpha))[i % (len(awkward) + len(alpha))] for i in range(size)]
                    if with_none:
                        data[size // 2] = None
                    want = [None if x is None else (getattr(x, name) if is_prop else getattr(x, name)()) for x in data]
                    agg.evals += 1; agg.transitions += 1; agg.states += 1; agg.nontrivial += 1; agg.compared += 1
                    case = {"kind": kind, "method": name, "size": size, "holds_none": with_none, "data": [repr(x) for x in data[:8]], "long": True}
                    try:
                        v = Vector(list(data))
                        res = getattr(v, name) if is_prop else getattr(v, name)()
                    except Exception as e:
                        agg.violation(V(f"method.{kind}.{name}.long", "raises-" + type(e).__name__, case, None, repr(e)[:100]))
                        continue
                    got = result_list(res)
                    if got is None:
                        agg.violation(V(f"method.{kind}.{name}.long", "result-not-a-vector", case, None, repr(res)[:60]))
                    elif len(got) != len(want):
                        agg.violation(V(f"method.{kind}.{name}.long", "wrong-length", case, len(want), len(got)))
                    elif not same_list(got, want):
                        i = [k for k, (g, w) in enumerate(zip(got, want)) if not same_list([g], [w])][0]
                        agg.violation(V(f"method.{kind}.{name}.long", "wrong-values", dict(case, first_wrong_index=i), repr(want[i]), repr(got[i])))
                    else:
                        agg.outcomes["method-agree"] += 1
    # histories: call the broadcast method, edit the vector in place, call the SAME method again (a proxy or a
    # result must never be remembered across a write)
    for name in names:
        cls_attr = getattr(pytype, name)
        is_prop = not callable(cls_attr)
        for args in ([()] if is_prop else ARG_MENU):
            try:
                for a in alpha:
                    getattr(a, name) if is_prop else getattr(a, name)(*args)
            except Exception:
                continue
            for size, wl in [(3, "int"), (3, "slice"), (3, "replace-all"), (3, "int-twice"), (33, "int"), (33, "int-twice"), (33, "slice")]:
                data = [alpha[i % len(alpha)] for i in range(size)]
                d2 = list(data)
                agg.evals += 1; agg.transitions += 3; agg.states += 1; agg.nontrivial += 1
                case = {"kind": kind, "method": name, "args": list(args), "data": data[:4], "size": size, "write": wl, "allocator": policy,
                        "history": ["call", "in-place write(s)", "call again"]}
                try:
                    v = Vector(list(data))
                    r1 = getattr(v, name) if is_prop else getattr(v, name)(*args)
                    held = None if is_prop else getattr(v, name)      # the method object itself, taken BEFORE the write and called after it
                    if wl == "int":
                        v[0] = alpha[-1]; d2[0] = alpha[-1]
                    elif wl == "int-twice":      # two writes: storage is swapped twice before the method is called again
                        v[0] = alpha[-1]; v[1] = alpha[-1]; d2[0] = alpha[-1]; d2[1] = alpha[-1]
                    elif wl == "slice":
                        v[1:3] = [alpha[-1], alpha[-1]]; d2[1:3] = [alpha[-1], alpha[-1]]
                    else:
                        v[[True] * size] = alpha[-1]; d2 = [alpha[-1]] * size
                    r2 = getattr(v, name) if is_prop else getattr(v, name)(*args)
                    r3 = held(*args) if held is not None else None
                except Exception as e:
                    agg.violation(V(f"method.{kind}.{name}", "history-raises-" + type(e).__name__, case, None, repr(e)[:80]))
                    continue
                want2 = [getattr(x, name) if is_prop else getattr(x, name)(*args) for x in d2]
                want1 = [getattr(x, name) if is_prop else getattr(x, name)(*args) for x in data]
                agg.compared += 2
                g1, g2 = result_list(r1), result_list(r2)
                g3 = result_list(r3) if held is not None else None
                if g2 is None or not same_list(g2, want2):
                    agg.violation(V(f"method.{kind}.{name}", "stale-result-after-in-place-write", case, want2, g2))
                elif held is not None and (g3 is None or not same_list(g3, want2)):
                    agg.violation(V(f"method.{kind}.{name}", "method-object-taken-before-a-write-computes-on-the-old-elements", case, want2, g3))
                elif g1 is None or not same_list(g1, want1):
                    agg.violation(V(f"method.{kind}.{name}", "earlier-result-changed-by-later-write", case, want1, g1))
                else:
                    agg.outcomes["method-history-agree"] += 1
            break       # one accepted argument tuple per method is enough for the history pass
    agg.notes[f"methods_{kind}"] = len(names)
    agg.sample({"methods": kind, "count": len(names), "example": names[:6]})
    return agg


# ---------------------------------------------------------------------------- table arithmetic = the column operation, differential
def unit_table_columnwise(unit):
    """'arithmetic with a table as left operand is the same operation applied column by column': for every operator, every
    column mix (incl. date / datetime / str / bool / nullable columns) and every right operand (scalars of every kind,
    timedelta, a table of equal shape), op(table, y) must have exactly the columns [op(column, y)] - the vector operation is
    the oracle, whatever it does (day shifting for dates, raising, pairing up)."""
    from serif import Vector, Table
    agg = Agg()
    T1, T2 = datetime(2020, 2, 28, 5), datetime(2021, 12, 31, 6)
    cols = {
        "int": [1, -2], "float": [0.5, 2.0], "bool": [True, False], "str": ["p", ""], "date": [D1, D2], "datetime": [T1, T2],
        "int?": [None, 3], "date?": [D1, None], "complex": [1j, 2 + 0j],
    }
    scal = [2, 0, -1, 0.5, True, "z", 1j, timedelta(days=1), timedelta(days=-40), D1, None]
    names = list(cols)
    layouts = [(a,) for a in names] + [(a, b) for a in names for b in names if a != b]

    def same_outcome(a, b):
        if isinstance(a, Exception) or isinstance(b, Exception):
            return isinstance(a, Exception) and isinstance(b, Exception)
        return same_list(list(a._underlying), list(b._underlying))

    for lay in layouts:
        for opn, op in OPS.items():
            rights = [("scalar", y) for y in scal] + [("table", lay2) for lay2 in layouts if len(lay2) == len(lay)][:12]
            # vector operands: as long as the columns; as long as the column COUNT; both also row-oriented (v.T)
            rights += [("vector", ("plain", 2)), ("vector", ("row", 2)), ("vector", ("plain", len(lay))), ("vector", ("row", len(lay))), ("vector", ("row", 3))]
            for rk, y in rights:
                agg.evals += 1; agg.transitions += 1 + len(lay); agg.states += 1
                case = {"table_columns": list(lay), "op": opn, "right": rk, "right_value": repr(y)}
                t = Table([Vector(list(cols[k]), name=f"c{i}") for i, k in enumerate(lay)])
                yt = Table([Vector(list(cols[k]), name=f"d{i}") for i, k in enumerate(y)]) if rk == "table" else y
                if rk == "vector":
                    yt = Vector([3, 5, 7][:y[1]])
                    if y[0] == "row":
                        yt = yt.T
                    y = yt
                want = []
                for i, k in enumerate(lay):
                    c = Vector(list(cols[k]), name=f"c{i}")
                    try:
                        want.append(op(c, yt._underlying[i] if rk == "table" else y))
                    except Exception as e:
                        want.append(e)
                try:
                    res = op(t, yt)
                except Exception as e:
                    res = e
                agg.compared += 1
                if any(isinstance(w, Exception) for w in want):
                    if isinstance(res, Exception):
                        agg.outcomes["columnwise-both-raise"] += 1
                    elif all(isinstance(w, Exception) for w in want):
                        agg.violation(V(f"table.{opn}.{rk}", "table-accepts-what-every-column-rejects", case, [repr(w)[:60] for w in want], repr(res)[:80]))
                    else:
                        agg.skipped["some-column-raises"] += 1
                    continue
                agg.nontrivial += 1
                if isinstance(res, Exception):
                    agg.violation(V(f"table.{opn}.{rk}", "table-raises-where-columns-compute-" + type(res).__name__, case,
                                    [list(w._underlying) for w in want], repr(res)[:80]))
                    continue
                if type(res).__name__ != "Table" or len(res._underlying) != len(want):
                    agg.violation(V(f"table.{opn}.{rk}", "result-not-a-table", case, None, repr(res)[:80]))
                    continue
                bad = [i for i, (g, w) in enumerate(zip(res._underlying, want)) if not same_outcome(g, w)]
                if bad:
                    i = bad[0]
                    agg.violation(V(f"table.{opn}.{rk}", "differs-from-the-column-operation-" + lay[i].rstrip("?"), case,
                                    list(want[i]._underlying), list(res._underlying[i]._underlying)))
                else:
                    agg.outcomes["columnwise-agree"] += 1
    return agg


# ---------------------------------------------------------------------------- broadcast methods after an in-place promotion
PROMOTIONS = [
    ("int", [0, 5, -3], 2.5), ("int", [0, 5, -3], 1 + 2j), ("float", [0.5, -2.0, 3.0], 1 - 1j), ("bool", [True, False, True], 7),
    ("bool", [True, False, True], 2.5), ("date", [D1, D2, D1], datetime(2022, 3, 4, 5, 6)), ("int", [2 ** 53 + 1, 5, -3], 0.5),
]


def unit_promoted(unit):
    """a vector whose kind was widened IN PLACE by a write (int -> float / complex, bool -> int, date -> datetime), through the
    vector, a live column view or a table cell: every method / property of the NEW element type (and every one of the old type
    that the new elements still have) must be the method applied to each CURRENT element"""
    from serif import Vector, Table
    _, pi = unit
    src, data, new = PROMOTIONS[pi]
    agg = Agg()
    generic = set(dir(Vector))
    for through in ("vector", "column-view", "table-cell"):
        for pos in range(len(data)):
            for primed in (False, True):
                def build():
                    if through == "vector":
                        v = Vector(list(data)); t = None
                    else:
                        t = Table([Vector(list(data), name="a"), Vector(list(range(len(data))), name="b")])
                        v = t["a"]
                    if primed:                      # the attribute machinery was used before the promotion
                        for nm in ("real", "year", "bit_length"):
                            try:
                                getattr(v, nm)
                            except Exception:
                                pass
                    if through == "table-cell":
                        t[pos, "a"] = new
                        v = t["a"]
                    else:
                        v[pos] = new
                    return v
                try:
                    v0 = build()
                except Exception as e:
                    agg.skipped["promoting-write-refused-" + type(e).__name__] += 1      # whether it may be refused is C08's subject
                    continue
                cur = list(v0._underlying)
                tnew = type(cur[pos])
                names = [n for n in dir(tnew) if not n.startswith("_") and n not in EXCLUDE and n not in generic]
                for name in names:
                    is_prop = not callable(getattr(tnew, name))
                    for args in ([()] if is_prop else ARG_MENU):
                        try:
                            want = [getattr(x, name) if is_prop else getattr(x, name)(*args) for x in cur]
                        except Exception:
                            agg.skipped["python-rejects-args"] += 1
                            continue
                        agg.evals += 1; agg.transitions += 2; agg.states += 1; agg.nontrivial += 1; agg.compared += 1
                        case = {"kind_before": src, "data": [repr(x) for x in data], "write": [pos, repr(new)], "through": through,
                                "attribute_used_before_promotion": primed, "method": name, "args": list(args), "elements_now": [repr(x) for x in cur]}
                        try:
                            v = build()
                            res = getattr(v, name) if is_prop else getattr(v, name)(*args)
                        except Exception as e:
                            agg.violation(V(f"promoted.{type(cur[pos]).__name__}.{name}", "raises-" + type(e).__name__, case, want, repr(e)[:80]))
                            continue
                        got = result_list(res)
                        if got is None or not same_list(got, want):
                            agg.violation(V(f"promoted.{type(cur[pos]).__name__}.{name}", "not-the-method-of-the-current-elements", case, want, got))
                        else:
                            agg.outcomes["promoted-method-agree"] += 1
    return agg



def check(ctx):
    L = ctx.pick(3, 4)
    kinds = list(ALPHA)
    units = [("bin", a, b, L) for a in kinds for b in kinds]
    units += [("bin", "date", "timedelta", L), ("bin", "int", "timedelta", 1)]
    parts = core.pmap(unit_binary, units)
    parts += core.pmap(unit_binary_long, [("binlong", a, b) for a in kinds for b in kinds])
    parts += core.pmap(unit_mismatch, [("mm", k) for k in ("int", "float", "str", "bool")])
    parts += core.pmap(unit_unary, [("un", k, L + 1) for k in ("bool", "int", "float", "complex")])
    parts += core.pmap(unit_dates, [("dates",)])
    parts += core.pmap(unit_table, [("tables",)])
    parts += core.pmap(unit_table_columnwise, [("tables-columnwise",)])
    parts += core.pmap(unit_promoted, [("promoted", i) for i in range(len(PROMOTIONS))])
    sizes = (0, 1, 2, 3)
    parts += core.pmap(unit_methods, [("meth", k, sizes) for k in METHOD_KINDS] + [("meth", k, sizes, "recycle") for k in METHOD_KINDS])
    agg = core.merge_all(parts)
    agg.notes["bound"] = f"vector operands len<={L}; unary len<={L+1}; methods sizes 0..3 with every None subset"
    agg.notes["exhaustive"] = True
    return agg


def coverage_goals(ctx, agg):
    return [k for k in ("vv-agree", "sv-agree", "lv-agree", "unary-agree", "date-agree", "table-scalar-agree",
                        "table-table-agree", "method-agree", "length-mismatch-raises") if agg.outcomes.get(k, 0) < 20]


def replay(rec):
    return None
