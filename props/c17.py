"""C17 — every column is reachable by exactly one advertised, valid accessor name (Engine E + Engine H)."""
from __future__ import annotations

import itertools
import keyword
import re

from mc import core
from mc.core import Agg, V
from mc.models import model_sanitize, reserved_names

RULE = ("E: every column-name list of width 1..W over a 24-name adversarial alphabet (case variants, spaces, trailing/leading underscores, "
        "generated-looking names a__1 / col0_, reserved words and method names, keywords, empty, None, leading digits, punctuation before "
        "digits, unicode) on a fresh table; wide tables (11-12 columns) with a repeated name at every position pair; "
        "H: breadth-first exploration of histories of rename (through a live column view, rename_column, rename_columns), column "
        "replacement, append, and the side-effecting observations dir(t) / repr(t) / attribute access / row access / t[0, acc] = k as events. "
        "In every state: advertised names are identifiers, not keywords, shadow nothing, are pairwise distinct, one per column, resolve by "
        "attribute access, row attribute access and item assignment to their own column; t[stored] is the first occurrence; stored names "
        "never change. non-trivial = list with a repeated / unsanitary / reserved / missing name")
ASSUMPTIONS = ["the exact form of a disambiguated accessor (suffix with the column index) is not fixed by the statement: only validity, "
               "distinctness and resolution are judged for repeated names; first occurrences must equal the documented sanitisation",
               "names are str or None"]

ALPHA = ["a", "A", "a b", "a_", "a__1", "a__1_", "sum", "T", "class", "", None, "1", "1x", "c1", "col0_", "col1_", "é", "_",
         "#1 seed", "_2nd", "a_b", "cols", "name", "for",
         # letters whose case mapping is unusual: U+0130 lower-cases to 'i' + a combining dot, U+017F / U+0131 match [a-z] under re.IGNORECASE
         "\u0130stanbul", "\u017fum", "\u0131", "\u0130", "i",
         # look-alikes of generated accessors with leading zeros / huge indices / signs
         "a__01", "a__007", "a__00", "a__10",
         # names of public classmethods / less used methods
         "new", "NEW", "peek", "alias", "rename"]
ALPHA_H = ["a", "A", "a b", "sum", None, "col0_"]


def build(names):
    from serif import Table, Vector
    return Table([Vector([100 * (i + 1) + 1, 100 * (i + 1) + 2], name=nm) for i, nm in enumerate(names)])


def advertised(t):
    return set(dir(t)) - set(object.__dir__(t))


def dot_row(t):
    """accessor names shown in the dot row of repr(t), or None when the row is not printed / table too wide."""
    try:
        text = repr(t)
    except Exception:
        return "raises"
    for ln in text.split("\n"):
        toks = ln.split()
        if toks and all(tk.startswith(".") and len(tk) > 1 or tk == "..." for tk in toks) and any(tk.startswith(".") for tk in toks):
            return [tk[1:] if tk != "..." else "..." for tk in toks]
    return None


def check_state(agg, names, make, site_prefix, case, expect_model=True):
    """The full oracle on a table produced by make() (called several times: observations mutate caches)."""
    W = len(names)
    agg.compared += 1
    # ---- BEFORE anything asks the table for its accessors (dir() and repr() refresh its bookkeeping): a program that knows the
    # documented sanitisation rule uses the accessor of a first-occurrence name directly - attribute access, row access and
    # item assignment reach that very column
    if expect_model:
        seen0 = set()
        for i, nm in enumerate(names):
            base = model_sanitize(nm) if nm is not None else None
            want = base if base is not None else f"col{i}_"
            if base is not None and base in seen0:
                continue
            if base is not None:
                seen0.add(base)
            for how in ("getattr", "row", "setitem"):
                tb = make()
                try:
                    if how == "getattr":
                        ok_ = getattr(tb, want) is tb.cols()[i]
                    elif how == "row":
                        ok_ = getattr(tb[0], want) == tb.cols()[i]._underlying[0]
                    else:
                        before = [list(c._underlying) for c in tb.cols()]
                        tb[0, want] = 4242
                        before[i][0] = 4242
                        ok_ = [list(c._underlying) for c in tb.cols()] == before
                    got = None if ok_ else "another column"
                except Exception as e:
                    ok_, got = False, type(e).__name__
                if not ok_:
                    agg.violation(V(f"{site_prefix}.{how}", "documented-accessor-does-not-reach-its-column-before-dir-is-called", dict(case, accessor=want, column=i), i, got))
                    return False
    t = make()
    try:
        adv = advertised(t)
    except Exception as e:
        agg.violation(V(f"{site_prefix}.dir", "raises-" + type(e).__name__, case))
        return False
    okk = True
    # validity
    for a in sorted(adv):
        if not a.isidentifier():
            agg.violation(V(f"{site_prefix}.dir", "accessor-not-an-identifier", dict(case, accessor=a)))
            okk = False
        elif keyword.iskeyword(a):
            agg.violation(V(f"{site_prefix}.dir", "accessor-is-a-keyword", dict(case, accessor=a)))
            okk = False
        if a.lower() in reserved_names() or a in reserved_names():
            agg.violation(V(f"{site_prefix}.dir", "accessor-shadows-public-attribute", dict(case, accessor=a)))
            okk = False
    if len(adv) != W:
        agg.violation(V(f"{site_prefix}.dir", "advertised-count-differs-from-columns", dict(case, advertised=sorted(adv)), W, len(adv)))
        return False
    # resolution by attribute access: bijection onto the columns
    cols = t.cols()
    owner = {}
    for a in sorted(adv):
        try:
            c = getattr(t, a)
        except Exception as e:
            agg.violation(V(f"{site_prefix}.getattr", "advertised-accessor-does-not-resolve", dict(case, accessor=a), None, type(e).__name__,
                            py=f"from serif import Table, Vector\nt = Table([Vector([1], name=n) for n in {list(names)!r}])\nprint(dir(t)); print(t.{a})"))
            okk = False
            continue
        idx = [i for i, x in enumerate(t.cols()) if x is c]
        if len(idx) != 1:
            agg.violation(V(f"{site_prefix}.getattr", "accessor-resolves-to-non-column", dict(case, accessor=a)))
            okk = False
            continue
        if idx[0] in owner.values():
            agg.violation(V(f"{site_prefix}.getattr", "two-accessors-for-one-column", dict(case, accessor=a)))
            okk = False
        owner[a] = idx[0]
    if not okk:
        return False
    by_col = {i: a for a, i in owner.items()}
    if len(by_col) != W:
        agg.violation(V(f"{site_prefix}.getattr", "column-without-accessor", dict(case, accessors=owner)))
        return False
    # documented sanitisation for first occurrences
    if expect_model:
        seen = set()
        for i, nm in enumerate(names):
            base = model_sanitize(nm) if nm is not None else None
            want = base if base is not None else f"col{i}_"
            if base is not None and base in seen:
                continue            # repeated: form of the disambiguated name not fixed
            if base is not None:
                seen.add(base)
            if by_col[i] != want:
                agg.violation(V(f"{site_prefix}.sanitise", "accessor-differs-from-documented-rule", dict(case, column=i, stored=nm), want, by_col[i]))
                okk = False
    # item assignment through the accessor writes its own column only (one fresh object, writes applied in turn)
    t2 = make()
    want = [list(c._underlying) for c in t2.cols()]
    for n_, (a, i) in enumerate(sorted(owner.items())):
        try:
            t2[0, a] = 777 + n_
        except Exception as e:
            agg.violation(V(f"{site_prefix}.setitem", "accessor-not-usable-as-column-key", dict(case, accessor=a), None, type(e).__name__))
            okk = False
            continue
        want[i][0] = 777 + n_
        after = [list(c._underlying) for c in t2.cols()]
        if after != want:
            agg.violation(V(f"{site_prefix}.setitem", "accessor-writes-wrong-column", dict(case, accessor=a, column=i), want, after))
            okk = False
            break
    # row attribute access
    t3 = make()
    try:
        row = t3[0]
        for a, i in owner.items():
            try:
                val = getattr(row, a)
            except Exception as e:
                agg.violation(V(f"{site_prefix}.row", "accessor-not-usable-on-row", dict(case, accessor=a), None, type(e).__name__))
                okk = False
                continue
            if val != t3.cols()[i]._underlying[0]:
                agg.violation(V(f"{site_prefix}.row", "row-accessor-reads-wrong-column", dict(case, accessor=a, column=i)))
                okk = False
    except Exception as e:
        agg.violation(V(f"{site_prefix}.row", "row-access-raises-" + type(e).__name__, case))
        okk = False
    # string indexing by stored name: first occurrence; stored names untouched
    t4 = t
    for nm in set(n for n in names if isinstance(n, str)):
        first = list(names).index(nm)
        try:
            c = t4[nm]
        except Exception as e:
            agg.violation(V(f"{site_prefix}.getitem", "stored-name-not-found", dict(case, key=nm), first, type(e).__name__))
            okk = False
            continue
        if c is not t4.cols()[first]:
            got = [i for i, x in enumerate(t4.cols()) if x is c]
            agg.violation(V(f"{site_prefix}.getitem", "stored-name-not-first-occurrence", dict(case, key=nm), first, got,
                            py=f"from serif import Table, Vector\nt = Table([Vector([i], name=n) for i, n in enumerate({list(names)!r})])\nprint(list(t[{nm!r}]))  # expected [{first}]"))
            okk = False
    for tt in (t, t2):
        if tt.column_names() != list(names):
            agg.violation(V(f"{site_prefix}.names", "stored-names-altered", case, list(names), tt.column_names()))
            okk = False
    # dot row of the repr advertises the same names
    dr = dot_row(t)
    if dr == "raises":
        agg.violation(V(f"{site_prefix}.repr", "repr-raises", case))
        okk = False
    elif dr is not None:
        disp = list(range(W)) if W <= 10 else list(range(5)) + ["..."] + list(range(W - 5, W))
        want = [by_col[i] if i != "..." else "..." for i in disp]
        if dr != want:
            agg.violation(V(f"{site_prefix}.repr", "dot-row-differs-from-accessors", case, want, dr))
            okk = False
    return okk


def nontrivial(names):
    bases = [model_sanitize(n) if n is not None else None for n in names]
    return len(set(map(repr, bases))) < len(bases) or any(n is None or n != (model_sanitize(n) or "") for n in names)


def unit_names(unit):
    _, width, first = unit
    agg = Agg()
    for rest in itertools.product(ALPHA, repeat=width - 1):
        names = (first,) + rest
        agg.states += 1; agg.evals += 1; agg.transitions += 6
        if nontrivial(names):
            agg.nontrivial += 1
        case = {"names": list(names)}
        if check_state(agg, names, lambda: build(names), "fresh", case):
            agg.outcomes["accessors-ok"] += 1
        else:
            agg.outcomes["accessor-violation"] += 1
    agg.sample({"names": [first] + list(ALPHA[:width - 1])})
    return agg


def unit_wide(unit):
    _, width = unit
    agg = Agg()
    for i, j in itertools.combinations(range(width), 2):
        for dup in ("a", "x y"):
            names = [f"n{k}" for k in range(width)]
            names[i] = dup
            names[j] = dup
            agg.states += 1; agg.evals += 1; agg.transitions += 6; agg.nontrivial += 1
            if check_state(agg, tuple(names), lambda: build(names), "wide", {"width": width, "duplicate_at": [i, j], "name": dup}):
                agg.outcomes["accessors-ok"] += 1
            else:
                agg.outcomes["accessor-violation"] += 1
    return agg


# ------------------------------------------------------------------------------------------ Engine H
from mc import explorer
from mc.explorer import Slot, World, Outcome


class Disabled(Exception):
    pass


class Driver:
    Disabled = Disabled

    def __init__(self, seeds, names=None, max_width=3):
        self._seeds = [tuple(x) for x in seeds]
        self.names = list(names if names is not None else ALPHA_H)
        self.max_width = max_width

    def new_world(self):
        from mc import valloc
        w = World()
        w.alloc = valloc.CURRENT
        w.extra["names"] = []
        return w

    def after_event(self, world):
        pass

    def seeds(self):
        return [[("init", tuple(s))] for s in self._seeds]

    def snapshot(self, world):
        if not world.slots:
            return []
        t = world.slots[0].obj
        return [[list(c._underlying) for c in t._underlying]]

    def canon(self, world):
        return explorer.canon_world(world, "current")

    def events(self, world):
        names = world.extra["names"]
        W = len(names)
        ev = [("dir",), ("repr",)]
        for c in range(W):
            ev += [("getattr", c), ("rowattr", c), ("setitem_acc", c), ("replace", c), ("replace_idx", c)]
            for ni in range(len(self.names)):
                ev.append(("ren_view", c, ni))
                if isinstance(names[c], str) and names.index(names[c]) == c:
                    ev.append(("ren_item", c, ni))
                    ev.append(("ren_col", c, ni))
        if W >= 2 and all(isinstance(n, str) for n in names[:2]) and names[0] != names[1]:
            for ni in range(len(self.names)):
                ev.append(("ren_cols", ni))
        if W < self.max_width:
            for ni in range(len(self.names)):
                ev.append(("append_vec", ni))
                if isinstance(self.names[ni], str):
                    ev.append(("append_dict", ni))
        return ev

    def _accessor(self, t, c):
        for a in sorted(advertised(t)):
            try:
                if getattr(t, a) is t.cols()[c]:
                    return a
            except Exception:
                pass
        return None

    def apply(self, world, ev):
        from serif import Vector
        op = ev[0]
        names = world.extra["names"]
        if op == "init":
            t = build(ev[1])
            world.slots.append(Slot("tab", t))
            world.extra["names"] = list(ev[1])
            return Outcome(readonly=True)
        t = world.slots[0].obj
        try:
            if op == "dir":
                dir(t)
            elif op == "repr":
                repr(t)
            elif op == "getattr":
                a = self._accessor(t, ev[1])
                if a is None:
                    raise Disabled()
                getattr(t, a)
            elif op == "rowattr":
                a = self._accessor(t, ev[1])
                if a is None:
                    raise Disabled()
                getattr(t[0], a)
            elif op == "setitem_acc":
                a = self._accessor(t, ev[1])
                if a is None:
                    raise Disabled()
                t[0, a] = 500 + world.fresh()
            elif op == "replace":
                a = self._accessor(t, ev[1])
                if a is None:
                    raise Disabled()
                setattr(t, a, [600 + world.fresh(), 600 + world.fresh()])
            elif op == "replace_idx":
                # the indexed form  t.<sanitised name>__<column number> = values, written from the documented rule (dir() is not asked)
                base = model_sanitize(names[ev[1]]) if names[ev[1]] is not None else None
                if base is None:
                    raise Disabled()
                setattr(t, f"{base}__{ev[1]}", [650 + world.fresh(), 650 + world.fresh()])
            elif op == "ren_view":
                new = self.names[ev[2]]
                t.cols()[ev[1]].name = new
                names[ev[1]] = new
            elif op == "ren_item":
                new = self.names[ev[2]]
                t[names[ev[1]]].name = new
                names[ev[1]] = new
            elif op == "ren_col":
                new = self.names[ev[2]]
                t.rename_column(names[ev[1]], new)
                names[ev[1]] = new
            elif op == "ren_cols":
                new = self.names[ev[1]]
                new2 = self.names[(ev[1] + 1) % len(self.names)]
                t.rename_columns([names[0], names[1]], [new, new2])
                for o, nw in zip([names[0], names[1]], [new, new2]):      # sequential first-match semantics
                    names[names.index(o)] = nw
            elif op in ("append_vec", "append_dict"):
                new = self.names[ev[1]]
                k = 700 + world.fresh()
                r = (t >> Vector([k, k + 1], name=new)) if op == "append_vec" else (t >> {new: [k, k + 1]})
                world.slots[0] = Slot("tab", r)
                names.append(new)
            else:
                raise Disabled()
        except Disabled:
            raise
        except Exception as e:
            return Outcome(raised=e)
        return Outcome(targets={0})

    def check(self, world, pre, ev, out, agg, hist):
        names = tuple(world.extra["names"])
        case = {"history": [[list(x) if isinstance(x, tuple) else x for x in e] for e in hist], "names_now": list(names)}
        if out.raised is not None:
            agg.violation(V(f"history.{ev[0]}", "operation-on-advertised-accessor-raises-" + type(out.raised).__name__, case, None, repr(out.raised)[:80]))
            agg.outcomes["hist-violation"] += 1
            return

        def make():
            w, _, _ = explorer.replay(self, hist)
            return w.slots[0].obj

        if nontrivial(names):
            agg.nontrivial += 1
        if check_state(agg, names, make, "history", case):
            agg.outcomes["hist-accessors-ok"] += 1
        else:
            agg.outcomes["hist-violation"] += 1


def run_unit(unit):
    if unit[0] == "names":
        return unit_names(unit)
    if unit[0] == "wide":
        return unit_wide(unit)
    raise KeyError(unit)


def public_data_attributes():
    """Public names of Vector/Table that are neither methods nor properties (plain class attributes): a column with
    such a name must not be advertised under it either.  Discovered at run time, so a newly added one is covered."""
    from serif import Vector, Table
    out = set()
    for cls in (Vector, Table):
        for n in dir(cls):
            if n.startswith("_"):
                continue
            a = getattr(cls, n, None)
            if not callable(a) and not isinstance(a, property):
                out.add(n)
    return sorted(out)


def check(ctx):
    W = ctx.pick(3, 4)
    for extra in public_data_attributes():
        if extra not in ALPHA:
            ALPHA.append(extra)
    units = []
    for w in range(1, W + 1):
        for first in ALPHA:
            units.append(("names", w, first))
    units += [("wide", 11), ("wide", 12)]
    agg = core.merge_all(core.pmap(run_unit, units))
    # Engine H: histories of rename / replace / append / observation events
    D = ctx.pick(2, 3)
    seeds_w1 = [(a,) for a in ALPHA_H]
    seeds_w2 = [(a, b) for a in ALPHA_H for b in ALPHA_H]
    explorer.bfs(Driver(seeds_w1, ALPHA_H, max_width=2), D + 1, agg)            # +1: the 'init' event
    explorer.bfs(Driver(seeds_w2, ALPHA_H, max_width=3), D, agg)
    small = ["a", "A", None]
    explorer.bfs(Driver([(a,) for a in small], small + ["sum"], max_width=2), D + 2, agg)
    agg.notes["bound"] = (f"E: width<={W} over {len(ALPHA)} names; H: depth<={D} from width-1 tables and depth<={D-1} from width-2 tables over "
                          f"{len(ALPHA_H)} names, depth<={D+1} from width-1 tables over a 3-name sub-alphabet")
    return agg


def coverage_goals(ctx, agg):
    return [k for k in ("accessors-ok", "hist-accessors-ok") if agg.outcomes.get(k, 0) < 1000]


def replay(rec):
    case = rec.get("case") or {}
    if "history" not in case:
        return None
    hist = tuple(tuple(tuple(x) if isinstance(x, list) else x for x in e) for e in case["history"])
    drv = Driver([hist[0][1]], ALPHA_H)
    agg = Agg()
    w, pre, out = explorer.replay(drv, hist)
    drv.check(w, pre, hist[-1], out, agg, hist)
    return set(agg.viol)
