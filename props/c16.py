"""C16 — fingerprints track content: never stale, and they notice every change (Engine H + Engine E)."""
from __future__ import annotations

import itertools
import warnings

from mc import core, explorer
from mc.core import Agg, V
from mc.explorer import Slot, World, Outcome
from mc.models import obs, is_table

RULE = ("H: breadth-first interleavings (depth<=D) of fingerprint() calls - the caching read - on a vector, a table, a live column view and "
        "a donor vector with every write path: element / slice / mask / index-list (also with a repeated index) / promoting / None writes "
        "on the vector, through the view and on the donor; table cell, row, column and region assignment; column replacement by the donor "
        "and by a list; re-binding the view; read-only bundles. In every reached state every object's fingerprint() must equal the "
        "fingerprint of an object rebuilt from its plain values. "
        "E: every vector of length 1..N over {0,1,-1,2,1.5,'a','b',None,True}: every single-position change and every transposition of two "
        "elements with different hash() must change the fingerprint of the vector and of a table containing it. "
        "Nested: a vector of two vectors - every history of fingerprint() calls on the outer and inner vectors, writes through the inner "
        "handles / through the element read back from the outer vector / of the outer element, compared with a deep rebuild. "
        "non-trivial = state reached by at least one write after at least one fingerprint() call")
ASSUMPTIONS = ["pairs that Python's hash() cannot tell apart (-1/-2, 1/1.0/True) are excluded, as the statement says",
               "fingerprints are compared inside one process only (they embed hash(str))"]


class Disabled(Exception):
    pass


def rebuild_fp(x):
    from serif import Vector, Table
    if is_table(x):
        return Table([Vector(list(c._underlying)) for c in x._underlying]).fingerprint()
    return Vector(list(x._underlying)).fingerprint()


class Driver:
    Disabled = Disabled

    def __init__(self, alloc_policy="fresh"):
        self.alloc_policy = alloc_policy      # 'recycle': freed storage identities are handed to the next tuple of the same length

    def new_world(self):
        from mc import valloc
        w = World()
        w.alloc = valloc.CURRENT
        w.extra["fp_called"] = False
        w.extra["written_after_fp"] = False
        return w

    def after_event(self, world):
        pass

    def seeds(self):
        return [[("init",)]]

    def snapshot(self, world):
        return [obs(s.obj) for s in world.slots]

    def canon(self, world):
        return explorer.canon_world(world, "current")

    def events(self, world):
        ev = []
        names = [s.meta["role"] for s in world.slots]
        for i, r in enumerate(names):
            ev.append(("fp", i))
        for i, r in enumerate(names):
            if r in ("v", "c", "d"):
                for op in ("w_int", "w_slice", "w_mask", "w_idx", "w_idxdup", "w_idxdup2", "w_promote", "w_none", "w_swap"):
                    ev.append((op, i))
        t = names.index("t")
        for op in ("tw_cell", "tw_row", "tw_col", "tw_colscalar", "tw_region", "t_setattr_d", "t_setattr_list", "rebind_c", "read"):
            ev.append((op, t))
        ev.append(("read", names.index("v")))
        return ev

    def apply(self, world, ev):
        from serif import Vector, Table
        sl = world.slots
        op = ev[0]
        if op == "init":
            v = Vector([1, 2, 3], name="v")
            t = Table({"a": [1, 2, 3], "b": [4, 5, 6]})
            sl.append(Slot("vec", v, meta={"role": "v"}))
            sl.append(Slot("tab", t, meta={"role": "t"}))
            sl.append(Slot("col", t["a"], meta={"role": "c"}))
            sl.append(Slot("vec", Vector([7, 8, 9], name="d"), meta={"role": "d"}))
            return Outcome(readonly=True)
        x = sl[ev[1]].obj

        def val(old):
            return (old + 1) if isinstance(old, (int, float)) and not isinstance(old, bool) else world.fresh() + 50

        def guarded(thunk):
            try:
                thunk()
            except Exception as e:
                return Outcome(raised=e)
            if world.extra["fp_called"]:
                world.extra["written_after_fp"] = True
            return Outcome(targets=set(range(len(sl))))

        if op == "fp":
            try:
                x.fingerprint()
            except Exception as e:
                return Outcome(raised=e, readonly=True)
            world.extra["fp_called"] = True
            return Outcome(readonly=True)
        if op.startswith("w_"):
            n = len(x)
            u = x._underlying
            if op == "w_int":
                return guarded(lambda: x.__setitem__(0, val(u[0])))
            if op == "w_slice":
                return guarded(lambda: x.__setitem__(slice(0, 2), [val(u[0]), val(u[1])]))
            if op == "w_mask":
                return guarded(lambda: x.__setitem__([False] * (n - 1) + [True], val(u[n - 1])))
            if op == "w_idx":
                return guarded(lambda: x.__setitem__([n - 1, 0], [val(u[n - 1]), val(u[0])]))
            if op == "w_idxdup":
                return guarded(lambda: x.__setitem__([0, n - 1, 0], [val(u[0]), val(u[n - 1]), val(val(u[0]))]))
            if op == "w_idxdup2":       # the same position named twice, fewer updates than elements (negative alias of the index)
                return guarded(lambda: x.__setitem__([1, 1 - n], [val(u[1]), val(val(u[1]))]))
            if op == "w_promote":
                return guarded(lambda: x.__setitem__(0, (u[0] if isinstance(u[0], (int, float)) and not isinstance(u[0], bool) else 0) + 0.5))
            if op == "w_none":
                return guarded(lambda: x.__setitem__(n - 1, None))
            if op == "w_swap":
                return guarded(lambda: x.__setitem__([0, n - 1], [u[n - 1], u[0]]))
        T = x
        if op == "tw_cell":
            return guarded(lambda: T.__setitem__((0, 0), val(T._underlying[0]._underlying[0])))
        if op == "tw_row":
            return guarded(lambda: T.__setitem__(1, [val(c._underlying[1]) for c in T._underlying]))
        if op == "tw_col":
            return guarded(lambda: T.__setitem__((slice(None), 1), [val(e) for e in T._underlying[1]._underlying]))
        if op == "tw_colscalar":
            return guarded(lambda: T.__setitem__((slice(None), 0), val(T._underlying[0]._underlying[0])))
        if op == "tw_region":
            src = Table({"p": [world.fresh() + 60 for _ in range(3)], "q": [world.fresh() + 60 for _ in range(3)]})
            return guarded(lambda: T.__setitem__((slice(0, 3), slice(0, 2)), src))
        if op in ("t_setattr_d", "t_setattr_list"):
            d = [s.obj for s in sl if s.meta["role"] == "d"][0]
            value = d if op == "t_setattr_d" else [world.fresh() + 70 for _ in range(3)]
            return guarded(lambda: setattr(T, "a", value))
        if op == "rebind_c":
            ci = [i for i, s in enumerate(sl) if s.meta["role"] == "c"][0]
            sl[ci] = Slot("col", T["a"], meta={"role": "c"})
            return Outcome(readonly=True)
        if op == "read":
            def ops():
                yield lambda: repr(x)
                yield lambda: x + 1
                yield lambda: x.copy()
                yield lambda: x[0:1]
                yield lambda: list(iter(x))
                if is_table(x):
                    k0 = x._underlying[0]
                    yield lambda: x.sort_by(k0)
                    yield lambda: x.inner_join(x, left_on=k0, right_on=k0, expect="many_to_many")
                    yield lambda: x.aggregate(over=k0, sum_over=x._underlying[1])
                    yield lambda: dir(x)
                    yield lambda: [tuple(r) for r in x]
                else:
                    yield lambda: x.sort_by()
                    yield lambda: x == x
                    yield lambda: x.sum()
            for th in ops():
                try:
                    th()
                except Exception:
                    pass
            return Outcome(readonly=True)
        raise Disabled()

    def check(self, world, pre, ev, out, agg, hist):
        case = {"history": [list(e) for e in hist]}
        if out.raised is not None:
            agg.outcomes["event-refused:" + type(out.raised).__name__] += 1
        elif out.readonly:
            agg.outcomes["read"] += 1
        else:
            agg.outcomes["write"] += 1
        if world.extra["written_after_fp"]:
            agg.nontrivial += 1
        if out.readonly and pre is not None:
            post = self.snapshot(world)
            if post != pre and ev[0] != "rebind_c":
                agg.violation(V(f"event.{ev[0]}", "read-only-operation-changed-contents", case))
        for i, s in enumerate(world.slots):
            role = s.meta["role"]
            try:
                got = s.obj.fingerprint()
                want = rebuild_fp(s.obj)
            except Exception as e:
                agg.violation(V(f"fingerprint.{role}", "raises-" + type(e).__name__, case))
                continue
            if got != want:
                last_write = [e[0] for e in hist if e[0] not in ("fp", "read", "init", "rebind_c")]
                agg.violation(V(f"fingerprint.{'table' if s.kind == 'tab' else 'vector'}",
                                "stale-after-" + (last_write[-1] if last_write else "nothing"),
                                dict(case, object=role, values=[list(c._underlying) for c in s.obj._underlying] if s.kind == "tab" else list(s.obj._underlying)),
                                want, got,
                                py="# history: " + repr([list(e) for e in hist])))
                agg.outcomes["stale-fingerprint"] += 1
                return
        agg.outcomes["fingerprints-current"] += 1


# ------------------------------------------------------------------------------------------ E part
ALPHA = [0, 1, -1, 2, 1.5, -1.5, "a", "b", None, True]      # 1.5 / -1.5: a value and its negation (a sign-blind element hash)


def unit_changes(unit):
    from serif import Vector, Table
    _, n, first = unit
    agg = Agg()

    def h(x):
        # "other than pairs Python's own hash() cannot tell apart": Python's hash, NOT the implementation's element hash
        return ("none",) if x is None else hash(x)

    for rest in itertools.product(ALPHA, repeat=n - 1):
        vals = [first] + list(rest)
        agg.states += 1
        base = Vector(list(vals))
        f0 = base.fingerprint()
        t0 = Table([Vector(list(vals), name="x"), Vector(list(range(n)), name="y")]).fingerprint()
        # the fingerprint is a function of the contents only: equal for the same contents built through every route
        from mc import provenance
        for ri, route in enumerate(provenance.VECTOR_ROUTES):
            r2, vv = provenance.vector_variant(vals, None, ri)
            if r2 != route:
                continue
            agg.evals += 1; agg.transitions += 1; agg.compared += 1
            for warm in (False, True):
                if warm:
                    vv.fingerprint()
                if vv.fingerprint() != f0:
                    agg.violation(V("fingerprint.vector", "depends-on-how-the-vector-was-built", {"values": vals, "route": route}))
                    break
            else:
                agg.outcomes["route-independent"] += 1
        tcols = [("x", list(vals)), ("y", list(range(n)))]
        for ri, route in enumerate(provenance.TABLE_ROUTES):
            r2, tv = provenance.table_variant(tcols, ri)
            if r2 != route:
                continue
            agg.evals += 1; agg.transitions += 1; agg.compared += 1
            if tv.fingerprint() != t0 or tv.fingerprint() != t0:
                agg.violation(V("fingerprint.table", "depends-on-how-the-table-was-built", {"values": vals, "route": route}))
            else:
                agg.outcomes["route-independent"] += 1
        for i in range(n):
            for new in ALPHA:
                if h(new) == h(vals[i]):
                    agg.skipped["equal-hash-pair"] += 1
                    continue
                agg.evals += 1; agg.transitions += 2; agg.compared += 2; agg.nontrivial += 1
                v2 = list(vals); v2[i] = new
                case = {"values": vals, "position": i, "new": new}
                # (a) a freshly built vector with the changed content
                if Vector(list(v2)).fingerprint() == f0:
                    agg.violation(V("fingerprint.vector", "single-element-change-not-noticed", case))
                    continue
                # (b) in place, with the fingerprint cached before the write
                w = Vector(list(vals))
                w.fingerprint()
                try:
                    w[i] = new
                except Exception:
                    agg.skipped["write-refused"] += 1
                    continue
                if w.fingerprint() == f0:
                    agg.violation(V("fingerprint.vector", "in-place-change-not-noticed", case))
                    continue
                tt = Table([Vector(list(vals), name="x"), Vector(list(range(n)), name="y")])
                tt.fingerprint()
                try:
                    tt[i, "x"] = new
                except Exception:
                    agg.skipped["write-refused"] += 1
                    continue
                if tt.fingerprint() == t0:
                    agg.violation(V("fingerprint.table", "cell-change-not-noticed", case))
                    continue
                agg.outcomes["change-noticed"] += 1
        for i, j in itertools.combinations(range(n), 2):
            if h(vals[i]) == h(vals[j]):
                continue
            agg.evals += 1; agg.transitions += 1; agg.compared += 1
            v2 = list(vals); v2[i], v2[j] = v2[j], v2[i]
            case = {"values": vals, "swap": [i, j]}
            if Vector(v2).fingerprint() == f0:
                agg.violation(V("fingerprint.vector", "transposition-not-noticed", case))
                continue
            t2 = Table([Vector(v2, name="x"), Vector(list(range(n)), name="y")])
            if t2.fingerprint() == t0:
                agg.violation(V("fingerprint.table", "transposition-not-noticed", case))
                continue
            agg.outcomes["order-matters"] += 1
        # wide tables (more columns than rows): the changed column sits at every position
        for pos in range(3):
            def wide(values):
                cols = [Vector(list(range(200 + 10 * j, 200 + 10 * j + n)), name=f"c{j}") for j in range(3)]
                cols[pos] = Vector(list(values), name="x")
                return Table(cols)
            w0 = wide(vals).fingerprint()
            for i in range(n):
                for new in ALPHA:
                    if h(new) == h(vals[i]):
                        continue
                    v2 = list(vals); v2[i] = new
                    agg.evals += 1; agg.transitions += 1; agg.compared += 1
                    if wide(v2).fingerprint() == w0:
                        agg.violation(V("fingerprint.table", "cell-change-not-noticed-wide-table", {"values": vals, "position": i, "new": new, "column": pos, "shape": [n, 3]}))
                    else:
                        agg.outcomes["change-noticed"] += 1
        # column order matters for tables
        if n >= 1:
            a = Table([Vector(list(vals), name="x"), Vector(list(range(100, 100 + n)), name="y")]).fingerprint()
            b = Table([Vector(list(range(100, 100 + n)), name="y"), Vector(list(vals), name="x")]).fingerprint()
            if [h(x) for x in vals] != [h(x) for x in range(100, 100 + n)] and a == b:
                agg.violation(V("fingerprint.table", "column-order-not-noticed", {"values": vals}))
    agg.sample({"length": n, "first": first})
    return agg


def unit_containers(unit):
    """cells that are containers or less common scalars: a change of ONE component (a dict value under the same key, a list element,
    the order of a list, a set member, a nested list, one byte, a Fraction, a Decimal, a date) must change the fingerprint"""
    from datetime import date, datetime
    from decimal import Decimal
    from fractions import Fraction
    from serif import Vector, Table
    agg = Agg()
    pairs = [
        ({"k": 1}, {"k": 2}), ({"k": 1}, {"j": 1}), ({"a": 1, "b": 2}, {"a": 2, "b": 1}), ({"k": [1, 2]}, {"k": [1, 3]}), ({}, {"k": None}),
        ([1, 2], [1, 3]), ([1, 2], [2, 1]), ([1, 2], [1, 2, 2]), ([[1], [2]], [[1], [3]]), ([], [None]),
        ((1, 2), (1, 3)), ((1, 2), (2, 1)), ((1, (2, 3)), (1, (2, 4))),
        ({1, 2}, {1, 3}), (frozenset({1, 2}), frozenset({1, 3})), ({1}, {1, 2}),
        ({1, 4}, {2, 3}), (frozenset({8, 9}), frozenset({7, 10})), ({"a", "d"}, {"b", "c"}),      # same size, and the members' hashes may add up alike
        (b"ab", b"ac"), (b"ab", b"ba"), (bytearray(b"ab"), bytearray(b"ac")),
        (Fraction(1, 2), Fraction(1, 3)), (Decimal("1.5"), Decimal("1.6")), (date(2020, 1, 1), date(2020, 1, 2)), (datetime(2020, 1, 1, 1), datetime(2020, 1, 1, 2)),
        (1 + 2j, 1 + 3j), ("ab", "ba"), (range(3), range(4)),
        # values that differ in a part a lossy or symmetric element hash drops: microseconds, the two parts of a complex number swapped
        # or equal, numerator and denominator swapped, the low bit of a big int, the last bit of a float, letter case
        (datetime(2020, 1, 1, 1, 0, 0, 5), datetime(2020, 1, 1, 1, 0, 0, 6)), (datetime(2020, 1, 1, 1, 0, 0, 0), datetime(2020, 1, 1, 1, 0, 0, 999999)),
        (1 + 2j, 2 + 1j), (2 + 2j, 7 + 7j), (1 - 1j, -1 + 1j), (Fraction(1, 2), Fraction(2, 1)), (2 ** 70, 2 ** 70 + 1), (1.0, 1.0000000000000002), ("Ab", "aB"),
        (Decimal("1.5"), Decimal("-1.5")), (b"\x00a", b"a\x00"), ((1, 2), (2, 1)), (frozenset({1}), frozenset({2})),
    ]
    fillers = [7, "f", None]
    for old, new in pairs:
        for n in (1, 2, 3):
            for pos in range(n):
                for fill in fillers:
                    def build(x):
                        import copy
                        vals = [fill] * n
                        vals[pos] = copy.deepcopy(x)
                        return vals
                    for through in ("fresh", "vector", "column-view", "table-cell"):
                        agg.evals += 1; agg.transitions += 2; agg.states += 1; agg.nontrivial += 1; agg.compared += 1
                        case = {"old": repr(old), "new": repr(new), "length": n, "position": pos, "filler": repr(fill), "through": through}
                        try:
                            if through == "fresh":
                                f0, f1 = Vector(build(old)).fingerprint(), Vector(build(new)).fingerprint()
                                tf0 = Table([Vector(build(old), name="a"), Vector(list(range(n)), name="b")]).fingerprint()
                                tf1 = Table([Vector(build(new), name="a"), Vector(list(range(n)), name="b")]).fingerprint()
                            else:
                                t = Table([Vector(build(old), name="a"), Vector(list(range(n)), name="b")])
                                v = Vector(build(old)) if through == "vector" else t["a"]
                                f0, tf0 = v.fingerprint(), t.fingerprint()
                                import copy
                                if through == "table-cell":
                                    t[pos, "a"] = copy.deepcopy(new)
                                    v = t["a"]
                                else:
                                    v[pos] = copy.deepcopy(new)
                                if repr(v._underlying[pos]) != repr(new) or type(v._underlying[pos]) is not type(new):
                                    # a table cell cannot take an iterable as ONE value (iterables mean rows there): not this check's subject
                                    agg.skipped["container-not-storable-through-this-path"] += 1
                                    continue
                                f1, tf1 = v.fingerprint(), (t.fingerprint() if through != "vector" else None)
                                if through == "vector":
                                    tf0 = None
                                # and the result equals a fresh build
                                if f1 != Vector(build(new)).fingerprint():
                                    agg.violation(V("fingerprint.containers", "stale-or-different-from-a-fresh-build", case))
                                    continue
                        except Exception as e:
                            agg.skipped["container-cell-refused-" + type(e).__name__] += 1
                            continue
                        if f0 == f1:
                            agg.violation(V("fingerprint.containers", "component-change-not-noticed-vector", case))
                        elif tf0 is not None and tf0 == tf1:
                            agg.violation(V("fingerprint.containers", "component-change-not-noticed-table", case))
                        else:
                            agg.outcomes["change-noticed"] += 1
    # a mutable cell changed IN PLACE and then written back (v[1] += [9] stores the very same object again): the write is not a no-op
    def mutate(x):
        if isinstance(x, list):
            x.append(99)
        elif isinstance(x, dict):
            x["zz"] = 99
        elif isinstance(x, set):
            x.add(99)
        elif isinstance(x, bytearray):
            x.extend(b"!")
        else:
            return False
        return True
    import copy
    for old in ([1, 2], {"k": 1}, {1, 2}, bytearray(b"ab"), [[1], [2]]):
        for n in (1, 2, 3):
            for pos in range(n):
                for through in ("vector", "column-view", "slice-write-back"):
                    for primed in (True, False):
                        agg.evals += 1; agg.transitions += 3; agg.states += 1; agg.nontrivial += 1; agg.compared += 1
                        case = {"cell": repr(old), "length": n, "position": pos, "through": through, "fingerprint_cached_before": primed,
                                "steps": ["fingerprint()", "change the cell object in place", "store the same object back", "fingerprint()"]}
                        try:
                            vals = [7] * n
                            vals[pos] = copy.deepcopy(old)
                            t = Table([Vector(list(vals), name="a"), Vector(list(range(n)), name="b")])
                            v = Vector(list(vals)) if through != "column-view" else t["a"]
                            if primed:
                                v.fingerprint(); t.fingerprint()
                            cell = v._underlying[pos]
                            mutate(cell)
                            if through == "slice-write-back":
                                v[pos:pos + 1] = [cell]
                            else:
                                v[pos] = cell
                            want = Vector(copy.deepcopy(list(v._underlying))).fingerprint()
                            got = v.fingerprint()
                        except Exception as e:
                            agg.skipped["container-cell-refused-" + type(e).__name__] += 1
                            continue
                        if got != want:
                            agg.violation(V("fingerprint.containers", "stale-after-storing-a-changed-object-back", case))
                        else:
                            agg.outcomes["fingerprints-current"] += 1
    # a nested cell that holds ONE inner object at several places ([pair, pair], [[0, 0]] * 3, a tuple naming a list twice, a dict with
    # one list under two keys): contents decide, not object identity - the fingerprint equals that of a cell built from equal but
    # DISTINCT inner objects (deepcopy would keep the sharing, so the twins are written out by hand)
    def shared_and_distinct():
        p = [1, 2]
        yield "list names one list twice", [p, p], [[1, 2], [1, 2]]
        z = [0, 0]
        yield "[[0, 0]] * 3", [z] * 3, [[0, 0], [0, 0], [0, 0]]
        q = [3]
        yield "tuple names one list twice", (q, q), ([3], [3])
        r = (1, 2)
        yield "list names one tuple twice", [r, r, 5], [(1, 2), tuple([1, 2]), 5]
        d = [9]
        yield "dict holds one list under two keys", {"a": d, "b": d}, {"a": [9], "b": [9]}
        e = [4]
        yield "shared two levels down", [[e], [e]], [[[4]], [[4]]]
        w = [7, 8]
        yield "shared with something between", [w, 1, w], [[7, 8], 1, [7, 8]]
    for label, shared, distinct in shared_and_distinct():
        for n in (1, 2, 3):
            for pos in range(n):
                for through in ("fresh", "vector-write", "column-view-write", "primed-then-write"):
                    agg.evals += 1; agg.transitions += 2; agg.states += 1; agg.nontrivial += 1; agg.compared += 2
                    case = {"cell": label, "cell_repr": repr(shared), "length": n, "position": pos, "through": through}
                    try:
                        twin = [7] * n
                        twin[pos] = distinct
                        want = Vector(list(twin)).fingerprint()
                        want_t = Table([Vector(list(twin), name="a"), Vector(list(range(n)), name="b")]).fingerprint()
                        if through == "fresh":
                            vals = [7] * n
                            vals[pos] = shared
                            got = Vector(list(vals)).fingerprint()
                            got_t = Table([Vector(list(vals), name="a"), Vector(list(range(n)), name="b")]).fingerprint()
                        else:
                            vals = [7] * n
                            vals[pos] = [0]
                            t = Table([Vector(list(vals), name="a"), Vector(list(range(n)), name="b")])
                            v = Vector(list(vals)) if through != "column-view-write" else t["a"]
                            if through == "primed-then-write":
                                v.fingerprint(); t.fingerprint()
                            v[pos:pos + 1] = [shared]
                            got = v.fingerprint()
                            got_t = t.fingerprint() if through == "column-view-write" else want_t
                    except Exception as e:
                        agg.skipped["container-cell-refused-" + type(e).__name__] += 1
                        continue
                    if got != want or got_t != want_t:
                        agg.violation(V("fingerprint.containers", "cell-with-a-repeated-inner-object-differs-from-equal-contents", case))
                    else:
                        agg.outcomes["fingerprints-current"] += 1
    return agg


def unit_catalogue(unit):
    """results of the run-time derivation catalogue (mc/purity.py: copies, fills, casts, slices, sorts, stacking, arithmetic,
    joins ... on every operand kind and provenance form) taken from an operand whose fingerprint HAS BEEN READ, and cached, before:
    every vector or table that comes back has the fingerprint of a freshly built object with its contents (nothing cached is
    handed on to an object with other contents), and the operand's own fingerprint is unchanged by the read-only operation"""
    from mc import purity
    _, kind, form, ykind = unit
    agg = Agg()
    for label, fn, live in purity.all_derivations(kind, form, ykind):
        sc = purity.Scenario(kind, form, ykind)
        primed = {}
        for nm, o in sc.objects.items():
            if purity.is_vec(o) and not purity.is_row(o):
                try:
                    primed[nm] = o.fingerprint()
                except Exception:
                    pass
        agg.evals += 1; agg.transitions += 2; agg.states += 1
        try:
            r = fn(sc)
        except Exception:
            agg.skipped["operation-raises"] += 1
            continue
        case = {"operand": kind, "form": form, "second_operand": ykind, "derivation": label, "steps": ["fingerprint() of every operand", "the derivation", "fingerprint() of the result"]}
        items = r if isinstance(r, (list, tuple)) else [r]
        for it in items[:6]:
            if not purity.is_vec(it) or purity.is_row(it):
                continue
            if not is_table(it) and any(purity.is_vec(e) for e in it._underlying):
                continue            # nested vectors: unit_nested
            agg.compared += 1; agg.nontrivial += 1
            try:
                got, want = it.fingerprint(), rebuild_fp(it)
            except Exception:
                agg.skipped["fingerprint-or-rebuild-raises"] += 1
                continue
            if got != want:
                agg.violation(V("fingerprint.catalogue." + purity._site(label), "result-of-a-primed-operand-differs-from-a-fresh-build", case))
            else:
                agg.outcomes["fingerprints-current"] += 1
        if not live and not label.startswith("(write)"):
            for nm, f0 in primed.items():
                o = sc.objects[nm]
                try:
                    if o.fingerprint() != f0 and rebuild_fp(o) == f0:
                        agg.violation(V("fingerprint.catalogue." + purity._site(label), "read-only-operation-changed-the-operands-fingerprint", dict(case, object=nm)))
                except Exception:
                    pass
    return agg


def unit_arrangements(unit):
    """"element order matters" in two dimensions: the SAME values arranged differently over the cells of a grid - every permutation
    of 4 distinct values over 2x2, and every transposition of two cells of 2x3 / 3x2 / 3x3 grids - give different fingerprints
    when the grid is (a) a table, (b) one nested list or tuple cell, (c) a vector whose elements are list cells, (d) a vector of
    vectors of unequal length; and a single write that turns one arrangement into another is noticed"""
    from serif import Vector, Table
    agg = Agg()

    def grids():
        base = [1, 2, 3, 4]
        for perm in itertools.permutations(base):
            yield "2x2", [[1, 2], [3, 4]], [list(perm[0:2]), list(perm[2:4])]
        for r, c in ((2, 3), (3, 2), (3, 3)):
            g0 = [[10 * i + j + 1 for j in range(c)] for i in range(r)]
            cells = [(i, j) for i in range(r) for j in range(c)]
            for (i1, j1), (i2, j2) in itertools.combinations(cells, 2):
                g1 = [row[:] for row in g0]
                g1[i1][j1], g1[i2][j2] = g1[i2][j2], g1[i1][j1]
                yield f"{r}x{c}", g0, g1
    makers = {
        "table (grid rows = columns)": lambda g: Table([Vector(list(col), name=f"c{k}") for k, col in enumerate(g)]),
        "one nested-list cell": lambda g: Vector([[list(r_) for r_ in g], 7]),
        "one nested-tuple cell": lambda g: Vector([tuple(tuple(r_) for r_ in g)]),
        "vector of list cells": lambda g: Vector([list(r_) for r_ in g] + [[0]]),
        "vector of vectors (ragged)": lambda g: Vector([Vector(list(r_)) for r_ in g] + [Vector([0])]),
        "table of tuple cells": lambda g: Table([Vector([tuple(r_) for r_ in g], name="a"), Vector(list(range(len(g))), name="b")]),
    }
    for shape, g0, g1 in grids():
        if g0 == g1:
            continue
        for mname, mk in makers.items():
            agg.evals += 1; agg.transitions += 2; agg.states += 1; agg.nontrivial += 1; agg.compared += 1
            case = {"holder": mname, "shape": shape, "arrangement_1": g0, "arrangement_2": g1}
            try:
                with warnings.catch_warnings():
                    warnings.simplefilter("ignore")
                    f0, f1 = mk(g0).fingerprint(), mk(g1).fingerprint()
            except Exception as e:
                agg.skipped["holder-not-buildable-" + type(e).__name__] += 1
                continue
            if f0 == f1:
                agg.violation(V("fingerprint.arrangements", "same-values-arranged-differently-have-one-fingerprint", case))
            else:
                agg.outcomes["order-matters"] += 1
        # one WRITE that replaces a nested cell by the other arrangement (cached before)
        agg.evals += 1; agg.transitions += 2; agg.compared += 1
        case = {"holder": "nested-list cell written in place", "shape": shape, "arrangement_1": g0, "arrangement_2": g1}
        try:
            v = Vector([[list(r_) for r_ in g0], 7])
            f0 = v.fingerprint()
            v[0:1] = [[list(r_) for r_ in g1]]
            f1 = v.fingerprint()
        except Exception as e:
            agg.skipped["write-refused"] += 1
            continue
        if f0 == f1:
            agg.violation(V("fingerprint.arrangements", "write-to-an-unequal-value-not-noticed", case))
        else:
            agg.outcomes["change-noticed"] += 1
    return agg


def unit_promotions(unit):
    """cached fingerprint, then a PROMOTING write into one position (int->float->complex, date->datetime, also NaN):
    every element's representation may change, the fingerprint must still equal a freshly built vector's"""
    from datetime import date, datetime
    from serif import Vector, Table
    agg = Agg()
    D = [date(2020, 1, 1), date(2021, 2, 3), date(2022, 3, 4), date(2023, 4, 5)]
    cases = [([1, 2, 3, 4], 2.5), ([1, 2, 3, 4], 1j), ([0.5, 1.5, 2.5, float("nan")], 2j), (list(D), datetime(2024, 5, 6, 7, 8)),
             ([1, 2, 3, 4], None), (list(D), None), ([True, False, True, True], None)]
    for vals, new in cases:
        for n in (2, 3, 4):
            for idx in range(n):
                for through in ("vector", "column-view", "table-cell"):
                    for prime in (True, False):
                        agg.evals += 1; agg.transitions += 3; agg.states += 1; agg.nontrivial += 1; agg.compared += 1
                        case = {"values": vals[:n], "write": [idx, new], "through": through, "fingerprint_cached_before": prime}
                        try:
                            if through == "vector":
                                v = Vector(list(vals[:n])); t = None
                            else:
                                t = Table([Vector(list(vals[:n]), name="a"), Vector(list(range(n)), name="b")])
                                v = t["a"]
                            if prime:
                                v.fingerprint()
                                if t is not None:
                                    t.fingerprint()
                            if through == "table-cell":
                                t[idx, "a"] = new
                            else:
                                v[idx] = new
                            cur = list(v._underlying)
                            good = v.fingerprint() == Vector(list(cur)).fingerprint()
                            if t is not None:
                                good = good and t.fingerprint() == Table([Vector(list(c._underlying)) for c in t._underlying]).fingerprint()
                        except Exception as e:
                            agg.violation(V("fingerprint.after-promotion", "raises-" + type(e).__name__, case, None, repr(e)[:80]))
                            continue
                        if not good:
                            agg.violation(V("fingerprint.after-promotion", "stale-after-promoting-write", case))
                        else:
                            agg.outcomes["promotion-fingerprint-ok"] += 1
    return agg


NESTED_EVENTS = ("fp_outer", "fp_a", "fp_b", "w_a", "w_b_via_outer", "w_outer_elem", "w_a_promote", "read_outer", "w_elem0_via_outer", "w_n", "fp_p", "p0_is_a", "p1_is_b")


def deep_rebuild_fp(x):
    """fingerprint of an object built from scratch with the same (nested) plain contents"""
    from serif import Vector

    def rb(y):
        if hasattr(y, "_underlying") and hasattr(y, "fingerprint"):
            return Vector([rb(e) for e in y._underlying])
        return y
    return rb(x).fingerprint()


def unit_nested(unit):
    """a (ragged) vector whose elements are vectors contributes their fingerprints: every history (<= depth events, first event
    fixed by the unit) of fingerprint() calls on the outer / inner vectors and writes through the inner handles, through the
    element obtained from the outer vector, and of the outer element itself"""
    from serif import Vector
    _, first, depth = unit
    agg = Agg()

    def run(hist):
        a = Vector([1, 2], name="a"); b = Vector([3, 4, 5], name="b")
        o = Vector([a, b])
        k = 10
        n_ = None                    # the vector most recently stored INTO the outer vector by the caller (kept by the caller)
        p_ = Vector([1, "x", 2.5])   # an ordinary object vector that may RECEIVE a vector as one of its cells later
        for ev in hist:
            k += 1
            if ev == "fp_outer": o.fingerprint()
            elif ev == "fp_a": a.fingerprint()
            elif ev == "fp_b": b.fingerprint()
            elif ev == "w_a": a[0] = k
            elif ev == "w_b_via_outer": o[1][2] = k
            elif ev == "w_outer_elem":
                n_ = Vector([k, k + 1], name="n")
                o[0] = n_
            elif ev == "w_elem0_via_outer": o[0][0] = k
            elif ev == "w_n":
                if n_ is not None:
                    n_[1] = k
            elif ev == "fp_p": p_.fingerprint()
            elif ev == "p0_is_a": p_[0] = a
            elif ev == "p1_is_b": p_[1] = b
            elif ev == "w_a_promote": a[1] = k + 0.5
            elif ev == "read_outer":
                repr(o); o.copy(); o[0:1]; list(o)
        return o, a, b, p_

    def rec(hist):
        agg.states += 1; agg.transitions += 1; agg.evals += 1
        case = {"nested_history": list(hist)}
        try:
            o, a, b, p_ = run(hist)
            pairs = [("outer", o.fingerprint(), deep_rebuild_fp(o))] + [(nm, x.fingerprint(), deep_rebuild_fp(x)) for nm, x in (("a", a), ("b", b), ("p", p_))]
        except Exception as e:
            agg.violation(V("fingerprint.nested", "raises-" + type(e).__name__, case, None, repr(e)[:80]))
            return
        agg.compared += len(pairs)
        if any(e.startswith("w_") for e in hist) and any(e.startswith("fp") for e in hist):
            agg.nontrivial += 1
        bad = [nm for nm, got, want in pairs if got != want]
        if bad:
            writes = [e for e in hist if e.startswith("w_")]
            agg.violation(V("fingerprint.nested-" + bad[0], "stale-after-" + (writes[-1] if writes else "nothing"), case,
                            py="# vector of vectors o = Vector([a, b]); history: " + repr(list(hist))))
            agg.outcomes["stale-fingerprint"] += 1
            return
        agg.outcomes["nested-fingerprints-current"] += 1
        if len(hist) < depth:
            for ev in NESTED_EVENTS:
                rec(hist + (ev,))

    rec(tuple(first) if isinstance(first, tuple) else (first,))
    return agg


def unit_long(unit):
    """size thresholds: vectors / table columns of 17..129 elements; cached fingerprint, then one or two writes of designated shapes
    (single cell at the ends and the middle, slices covering less / exactly / more than half, every-second mask, index list with
    a repeated index, whole vector, promoting write), through the vector, a live column view, a table cell or a table region"""
    from serif import Vector, Table
    _, n = unit
    agg = Agg()
    vals0 = [(i * 37) % 101 for i in range(n)]

    def writes():
        h = n // 2
        yield "cell-first", lambda v: v.__setitem__(0, 1000)
        yield "cell-middle", lambda v: v.__setitem__(h, 1001)
        yield "cell-last", lambda v: v.__setitem__(n - 1, 1002)
        yield "slice-less-than-half", lambda v: v.__setitem__(slice(0, h - 1), [2000 + i for i in range(h - 1)])
        yield "slice-exactly-half", lambda v: v.__setitem__(slice(0, h), [2100 + i for i in range(h)])
        yield "slice-more-than-half", lambda v: v.__setitem__(slice(0, h + 2), [2200 + i for i in range(h + 2)])
        yield "slice-all", lambda v: v.__setitem__(slice(None), [2300 + i for i in range(n)])
        yield "slice-step", lambda v: v.__setitem__(slice(1, None, 3), 2400)
        yield "mask-every-2nd", lambda v: v.__setitem__([i % 2 == 0 for i in range(n)], 2500)
        yield "index-repeated", lambda v: v.__setitem__([3, n - 1, 3], [2600, 2601, 2602])
        yield "promote", lambda v: v.__setitem__(h, 0.5)
        yield "none", lambda v: v.__setitem__(n - 2, None)
        yield "swap-ends", lambda v: v.__setitem__([0, n - 1], [v._underlying[n - 1], v._underlying[0]])
        yield "same-value", lambda v: v.__setitem__(h, v._underlying[h])
    W = list(writes())
    seqs = [(w,) for w in W] + [(a, b) for a in W[:6] for b in W if a is not b]
    for through in ("vector", "column-view", "table-cell-path"):
        for seq in seqs:
            for primed in ((True, False) if len(seq) == 1 else (True,)):
                agg.evals += 1; agg.transitions += 1 + len(seq); agg.states += 1; agg.nontrivial += 1; agg.compared += 1
                case = {"family": "long vectors", "len": n, "writes": [w[0] for w in seq], "through": through, "fingerprint_cached_before": primed}
                try:
                    if through == "vector":
                        v = Vector(list(vals0)); t = None
                    else:
                        t = Table([Vector(list(vals0), name="a"), Vector(list(range(n)), name="b")])
                        v = t["a"]
                    if primed:
                        v.fingerprint()
                        if t is not None:
                            t.fingerprint()
                    for wi, (_, wf) in enumerate(seq):
                        wf(v if through != "table-cell-path" else t["a"])
                        if wi == 0 and len(seq) == 2:
                            v.fingerprint()              # cached again between the two writes
                    v = v if t is None else t["a"]
                    good = v.fingerprint() == Vector(list(v._underlying)).fingerprint()
                    if t is not None:
                        good = good and t.fingerprint() == Table([Vector(list(c._underlying)) for c in t._underlying]).fingerprint()
                except Exception as e:
                    agg.violation(V("fingerprint.long", "raises-" + type(e).__name__, case, None, repr(e)[:80]))
                    continue
                if not good:
                    agg.violation(V("fingerprint.long", "stale-after-" + seq[-1][0], case))
                else:
                    agg.outcomes["long-fingerprints-current"] += 1
    return agg


def check(ctx):
    agg = Agg()
    depth = ctx.pick(3, 4)
    drv = Driver()
    explorer.bfs(drv, depth + 1, agg)       # one level more than 'depth' because the seed consists of the 'init' event only
    sizes = agg.notes.get("frontier_sizes")
    explorer.bfs(Driver(alloc_policy="recycle"), depth, agg)      # the same histories with CPython-like identity recycling
    agg.notes["frontier_sizes"] = {"fresh-identities": sizes, "recycled-identities": agg.notes.get("frontier_sizes")}
    N = ctx.pick(3, 4)
    units = [("chg", n, f) for n in range(1, N + 1) for f in ALPHA]
    for p in core.pmap(unit_changes, units):
        agg.merge(p)
    for p in core.pmap(unit_promotions, [("promote",)]):
        agg.merge(p)
    for p in core.pmap(unit_containers, [("containers",)]):
        agg.merge(p)
    for p in core.pmap(unit_arrangements, [("arrangements",)]):
        agg.merge(p)
    for p in core.pmap(unit_long, [("long", n) for n in (17, 32, 33, 64, 65, 129)]):
        agg.merge(p)
    from mc import purity
    for p in core.pmap(unit_catalogue, [("cat", u[1], u[2], u[3]) for u in purity.plan(())]):
        agg.merge(p)
    ND = ctx.pick(4, 6)
    for p in core.pmap(unit_nested, [("nested", ev, ND) for ev in NESTED_EVENTS]):
        agg.merge(p)
    agg.notes["bound"] = f"H: depth<={depth} events after the seed; E: vectors of length<={N} over 10 values; nested vectors: every history of <={ND} events over {len(NESTED_EVENTS)}; every result of the derivation catalogue taken from operands with a cached fingerprint"
    return agg


def coverage_goals(ctx, agg):
    return [k for k in ("fingerprints-current", "change-noticed", "order-matters") if agg.outcomes.get(k, 0) < 100]


def replay(rec):
    case = rec.get("case") or {}
    if "nested_history" in case:
        return set(unit_nested(("nested", tuple(case["nested_history"]), 0)).viol)      # depth 0: just this history
    if "history" not in case:
        return None
    hist = tuple(tuple(e) for e in case["history"])
    drv = Driver()
    agg = Agg()
    w, pre, out = explorer.replay(drv, hist)
    drv.check(w, pre, hist[-1], out, agg, hist)
    return set(agg.viol)
