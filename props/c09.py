"""C09 — inner join returns exactly the key-equal row pairs, in left-major order (Engine E, hash seeds)."""
from __future__ import annotations

import hashlib

from mc import core, joinspace as js, provenance

NROUTES = len(provenance.TABLE_ROUTES_ALL)
from mc.core import Agg, V
from mc.models import obs, truthful

RULE = ("every pair of tables with <=R rows per side, key columns over a 3-symbol alphabet per kind (int, str, hash-colliding ints, "
        "bool, date; None is a symbol), 1..3 key columns, two table layouts, keys given by name / own column / external vector; "
        "each join re-run under every PYTHONHASHSEED of the tier and digests compared; further families (mc/joinextra.py): skewed sizes "
        "(1..3 rows against 7..33), caller-owned key lists (unchanged, reusable), repeated column names, two joins on the same table objects, "
        "self-joins on composite keys, expect strings built at run time. "
        "non-trivial = some key occurs >=2 times on one side and >=1 time on the other (a many-to-x bucket)")
ASSUMPTIONS = ["a key column that is all-None on one side and typed on the other is rejected by the documented dtype validation: not judged",
               "names of an empty (0x0) result are not judged: the statement speaks about rows",
               "float keys are rejected by design and outside the alphabet"]

METHOD = "inner_join"


def nontrivial(lkeys, rkeys):
    for k in set(lkeys):
        if (lkeys.count(k) >= 2 and rkeys.count(k) >= 1) or (rkeys.count(k) >= 2 and lkeys.count(k) >= 1):
            return True
    return False


def run_unit(unit):
    if unit[0] == "hist":
        return js.run_hist_unit(unit, (METHOD,))
    if unit[0] == "big":
        return js.run_big_unit(unit, (METHOD,))
    if unit[0] == "extra":
        from mc import joinextra
        return joinextra.run_extra_unit(unit, (METHOD,), all_expects=True)
    kind, nkeys, config, forms, nl, maxr = unit
    agg = Agg()
    h = hashlib.sha256()
    last = None
    vi = 0          # provenance round-robin: both tables are built through a different route for every case
    for lkeys, rkeys in js.cases(unit):
        agg.states += 1
        nt = nontrivial(lkeys, rkeys)
        if nt:
            agg.nontrivial += 1
        # a key column that holds only None is typed 'object' when it was built from those values and keeps its kind when the
        # table was DERIVED from a longer one (provenance routes): the first is refused by the dtype validation, the second joins
        maybe_rejected = js.all_dtype_rejected(lkeys, rkeys, nkeys)
        for form in forms:
            case = js.describe_case(kind, nkeys, config, form, lkeys, rkeys, METHOD, "many_to_many")
            try:
                vi += 1
                L, lon, lcols = js.build_side("L", lkeys, nkeys, config, form, variant=vi % NROUTES)
                R, ron, rcols = js.build_side("R", rkeys, nkeys, config, form, variant=(vi // NROUTES) % NROUTES)
                case["routes"] = [provenance.TABLE_ROUTES_ALL[vi % NROUTES], provenance.TABLE_ROUTES_ALL[(vi // NROUTES) % NROUTES]]
            except Exception as e:
                agg.violation(V("join.build-inputs", "raises-" + type(e).__name__, case))
                continue
            bl, br = obs(L), obs(R)
            want = js.ref_inner(lcols, rcols, lkeys, rkeys)
            agg.evals += 1
            agg.transitions += 1
            site = f"inner_join.{form}"
            py = js.py_repro(lcols, rcols, lkeys, rkeys, nkeys, form, METHOD, "many_to_many")
            try:
                res = L.inner_join(R, left_on=lon, right_on=ron, expect="many_to_many")
            except Exception as e:
                if maybe_rejected and "mismatched dtypes" in str(e):
                    agg.skipped["all-None-vs-typed-key-column"] += 1
                    continue
                agg.violation(V(site, "raises-" + type(e).__name__, case, want, repr(e)[:120], py))
                continue
            agg.compared += 1
            got = js.result_rows(res)
            js.digest_update(h, got)
            sym = js.classify_rows(got, want)
            if sym:
                agg.violation(V(site, sym, case, want, got, py))
                agg.outcomes["mismatch"] += 1
            else:
                agg.outcomes["rows-agree-empty" if not want else ("rows-agree-many" if nt else "rows-agree")] += 1
            if want:
                names = [c._name for c in res._underlying]
                wn = [nm for nm, _ in lcols] + [nm for nm, _ in rcols]
                if names != wn:
                    agg.violation(V(site, "wrong-column-names", case, wn, names, py))
                for c in res._underlying:
                    t = truthful(c)
                    if t:
                        agg.violation(V(site, "result-dtype-" + t, case, None, None, py))
            if obs(L) != bl or obs(R) != br:
                agg.violation(V(site, "input-modified", case, None, None, py))
            last = case
    agg.digests[repr(unit)] = h.hexdigest()
    if last:
        agg.sample(last)
    return agg


def check(ctx):
    from mc import hashseeds
    units = js.plan_units(ctx.thorough)
    units += [("hist", k, f) for k in ("int", "str") for f in ("name", "column")]
    units += [("hist", "int", f, "recycle") for f in ("name", "column")]
    units += [("big", p) for p in range(4)]
    units += [("extra", f) for f in ("skew", "args", "dupnames", "twice", "self", "expectstr", "namesake", "dupkeys", "typednone", "large", "keyorder")]
    agg = hashseeds.run(ctx, "props.c09", units)
    agg.notes["bound"] = "see joinspace.plan_units: quick rows<=3 (1 key) / <=2 (2 keys); thorough rows<=4 / <=3 / <=2 (3 keys)"
    agg.notes["exhaustive"] = True
    return agg


def coverage_goals(ctx, agg):
    bad = []
    for k in ("rows-agree-many", "rows-agree-empty", "rows-agree"):
        if agg.outcomes.get(k, 0) < 100:
            bad.append(k)
    return bad


_FAMILY_UNITS = {'skewed sizes': 'skew', 'caller-owned key lists': 'args', 'repeated column name': 'dupnames', 'two joins on the same table objects': 'twice', 'self-join': 'self', 'expect string built at run time': 'expectstr', "key vector that carries a column's name": 'namesake', 'several different duplicated keys': 'dupkeys', 'typed key column holding only None after a cut': 'typednone', 'large tables': 'large', 'key names listed in another order than the columns': 'keyorder'}


def replay(rec):
    case = rec.get("case") or {}
    if case.get("family") in _FAMILY_UNITS:          # a designated family (mc/joinextra.py): re-run the family, compare signatures
        from mc import joinextra
        return set(joinextra.run_extra_unit(("extra", _FAMILY_UNITS[case["family"]]), (METHOD,), all_expects=True).viol)
    if "left_keys" not in case:
        return None
    agg = Agg()
    lkeys = [tuple(k) for k in case["left_keys"]]
    rkeys = [tuple(k) for k in case["right_keys"]]
    if case["kind"] == "date":
        return None
    if "hist" in case:
        side, idx, new, path = case["hist"]
        js.hist_one(agg, hashlib.sha256(), case["kind"], case["form"], (case["method"],), lkeys, rkeys, side, idx, new, path)
        return set(agg.viol)
    form = case["form"]
    routes = case.get("routes") or ["direct", "direct"]
    L, lon, lcols = js.build_side("L", lkeys, case["nkeys"], case["config"], form, variant=provenance.TABLE_ROUTES_ALL.index(routes[0]))
    R, ron, rcols = js.build_side("R", rkeys, case["nkeys"], case["config"], form, variant=provenance.TABLE_ROUTES_ALL.index(routes[1]))
    want = js.ref_inner(lcols, rcols, lkeys, rkeys)
    site = f"inner_join.{form}"
    try:
        res = L.inner_join(R, left_on=lon, right_on=ron, expect="many_to_many")
        sym = js.classify_rows(js.result_rows(res), want)
        if sym:
            agg.violation(V(site, sym))
        if want and [c._name for c in res._underlying] != [nm for nm, _ in lcols] + [nm for nm, _ in rcols]:
            agg.violation(V(site, "wrong-column-names"))
    except Exception as e:
        agg.violation(V(site, "raises-" + type(e).__name__))
    return set(agg.viol)
