"""C02 — tables stay rectangular; row views agree with column views (Engine H + Engine E)."""
from __future__ import annotations

import itertools

from mc import core, explorer
from mc.core import Agg, V
from mc.explorer import Slot, World, Outcome
from mc.models import obs, is_table, same_list

RULE = ("H: breadth-first exploration (depth<=D, pool<=4) of histories of table constructions (dict / vectors / Vector([..]) / >> with equal "
        "AND unequal lengths, zero-row and zero-column tables), derivations (>> vector/dict/list/table, << row/table, T, row slice incl. empty, "
        "mask incl. all-False, select, sort, joins, copy), in-place updates (cell, row, column, region, attribute assignment with right and "
        "wrong lengths, renames, writes through column views) and the row-reading observations (t[i], iteration, shape) as events, including "
        "failing operations; in every state every table must be rectangular and its rows must agree with its columns. "
        "E: every table with 0..3 rows x 0..3 columns: >> / << / T.T / slices / masks preserve cells exactly; ragged input never yields a Table. "
        "non-trivial = state containing a table reached through at least one failed or in-place operation, or a zero-size table")
ASSUMPTIONS = ["'rejected' for ragged input = an exception, or (as Vector.__new__ documents) a plain non-Table vector with a warning",
               "out-of-range row access: only 'an index that no column has never produces a row' is judged (which exception, and whether it is "
               "raised by t[i] or when the row is read, is not)"]


class Disabled(Exception):
    pass


def table_invariant(t):
    """None or (symptom, detail) for one table object."""
    cols = t._underlying
    try:
        n = len(t)
    except Exception as e:
        return ("len-raises-" + type(e).__name__, None)
    lens = [len(c._underlying) for c in cols]
    if any(l != n for l in lens):
        if len(set(lens)) > 1:
            return ("ragged-columns", {"len": n, "column_lengths": lens})
        return ("len-differs-from-column-length", {"len": n, "column_lengths": lens})
    try:
        shape = t.shape
    except Exception as e:
        return ("shape-raises-" + type(e).__name__ + ("-zero-rows" if n == 0 else ""), None)
    if cols and tuple(shape)[:2] != (n, len(cols)) and not (n and hasattr(cols[0]._underlying[0] if cols[0]._underlying else None, "shape")):
        return ("shape-wrong", {"shape": tuple(shape), "expected": (n, len(cols))})
    want = [[c._underlying[i] for c in cols] for i in range(n)]
    try:
        rows_idx = [list(t[i]) for i in range(n)]
    except Exception as e:
        return ("row-index-raises-" + type(e).__name__, None)
    try:
        rows_it = [list(r) for r in t]
    except Exception as e:
        return ("row-iteration-raises-" + type(e).__name__ + ("-zero-rows" if n == 0 else ""), None)
    for got, lab in ((rows_idx, "indexed"), (rows_it, "iterated")):
        if len(got) != n or any(not same_list(g, w) for g, w in zip(got, want)):
            return (f"{lab}-rows-differ-from-columns", {"rows": got, "columns_say": want})
    # rows taken first and read later, with other reads of the table in between (a row is a value, not a cursor)
    try:
        held = [t[i] for i in range(n)]
        if n:
            t.shape; t[n - 1]; len(t)
            if cols:
                try:
                    t[n - 1, 0]
                except Exception:
                    pass                  # a table whose cells are vectors has more dimensions; not this check's subject
        rows_held = [list(h) for h in held]
    except Exception as e:
        return ("held-row-raises-" + type(e).__name__, None)
    if any(not same_list(g, w) for g, w in zip(rows_held, want)):
        return ("held-rows-differ-from-columns", {"rows": rows_held, "columns_say": want})
    # negative indices count from the end; an index no column has must not produce a row
    if cols:
        for i in list(range(-2 * n - 2, 0)) + [n, n + 1, 2 * n, 2 * n + 1]:
            try:
                col_say = [c._underlying[i] for c in cols]
            except IndexError:
                col_say = None
            try:
                got = list(t[i])
            except Exception:
                got = None
            if col_say is None and got is not None:
                return ("row-produced-for-an-index-no-column-has", {"index": i, "len": n, "row": got})
            if col_say is not None and (got is None or not same_list(got, col_say)):
                return ("negative-index-row-differs-from-columns", {"index": i, "row": got, "columns_say": col_say})
    return None


class Driver:
    Disabled = Disabled

    def __init__(self, pool=4):
        self.pool = pool

    def new_world(self):
        from mc import valloc
        w = World()
        w.alloc = valloc.CURRENT
        w.extra["special"] = False
        return w

    def after_event(self, world):
        pass

    def seeds(self):
        return [[("T_dict",), ("V2",)], [("T_dict",), ("getcol", 0, 0)], [("T_zero",), ("V2",)], [("T_dict",), ("T_dict",)]]

    def snapshot(self, world):
        out = []
        for s in world.slots:
            try:
                out.append(obs(s.obj))
            except Exception as e:
                out.append(("unobservable", type(e).__name__))
        return out

    def canon(self, world):
        return explorer.canon_world(world, "current")

    def events(self, world):
        sl = world.slots
        ev = []
        room = len(sl) < self.pool
        vecs = [i for i, s in enumerate(sl) if s.kind in ("vec", "col")]
        tabs = [i for i, s in enumerate(sl) if s.kind == "tab"]
        if room:
            ev += [("T_dict",), ("T_dict_ragged",), ("T_zero",), ("T_empty",), ("V2",), ("V3",)]
            for i in vecs:
                for j in vecs:
                    ev += [("T_vecs", i, j), ("V_of_vecs", i, j)]
                    if i != j:
                        ev.append(("rshift_vv", i, j))
            for t in tabs:
                ev += [("T", t), ("TT", t), ("slice01", t), ("slice00", t), ("mask", t), ("mask_none", t), ("select", t), ("sort", t),
                       ("copy", t), ("lshift_row", t), ("lshift_badrow", t), ("rshift_tlist", t), ("rshift_tbadlist", t),
                       ("rshift_tdict", t), ("rshift_tbaddict", t), ("getcol", t, 0)]
                for v in vecs:
                    ev += [("rshift_tv", t, v), ("rshift_tdictv", t, v)]
                for t2 in tabs:
                    ev += [("rshift_tt", t, t2), ("lshift_tt", t, t2), ("ijoin", t, t2), ("fjoin", t, t2)]
        for t in tabs:
            ev += [("tw_cell", t), ("tw_row", t), ("tw_badrow", t), ("tw_col", t), ("tw_badcol", t), ("t_setattr_list", t),
                   ("t_setattr_badlist", t), ("t_rename", t), ("t_rename_bad", t), ("rowread", t),
                   ("col_iop", t, "ilshift"), ("col_iop", t, "irshift"), ("col_iop", t, "iadd"), ("attr_iop", t, "ilshift"), ("attr_iop", t, "iadd")]
            for v in vecs:
                ev.append(("t_setattr_vec", t, v))
            for t2 in tabs:
                if t2 != t:
                    ev.append(("tw_region", t, t2))
        for i in vecs:
            ev += [("w_int", i), ("w_badlen", i)]
        return ev

    def apply(self, world, ev):
        from serif import Vector, Table
        sl = world.slots
        op = ev[0]

        def k():
            return 100 + world.fresh()

        def add(r, law=None):
            if is_table(r):
                sl.append(Slot("tab", r, meta={"law": law}))
            elif isinstance(r, Vector):
                sl.append(Slot("vec", r, meta={"law": law}))
            else:
                raise Disabled()
            return Outcome(new=len(sl) - 1, readonly=True, note=law)

        def guarded(thunk):
            world.extra["special"] = True
            try:
                thunk()
            except Exception as e:
                return Outcome(raised=e)
            return Outcome(targets=set(range(len(sl))))

        def cells(t):
            return [list(c._underlying) for c in t._underlying]

        try:
            if op == "T_dict":
                a = k()
                return add(Table({"a": [a, a + 1], "b": [a + 2, a + 3]}))
            if op == "T_dict_ragged":
                return add(Table({"a": [k(), k()], "b": [k()]}), law=("must-not-be-ragged",))
            if op == "T_zero":
                world.extra["special"] = True
                return add(Table({"a": [], "b": []}))
            if op == "T_empty":
                world.extra["special"] = True
                return add(Table())
            if op == "V2":
                return add(Vector([k(), k()]))
            if op == "V3":
                return add(Vector([k(), k(), k()]))
            if op in ("T_vecs", "V_of_vecs", "rshift_vv"):
                a, b = sl[ev[1]].obj, sl[ev[2]].obj
                equal = len(a) == len(b)
                if op == "T_vecs":
                    r = Table([a, b])
                elif op == "V_of_vecs":
                    r = Vector([a, b])
                else:
                    r = a >> b
                return add(r, law=("from-vectors", [list(a._underlying), list(b._underlying)], equal))
            if op == "getcol":
                t = sl[ev[1]].obj
                if not t._underlying:
                    raise Disabled()
                sl.append(Slot("col", t.cols(ev[2]), meta={}))
                return Outcome(new=len(sl) - 1, readonly=True)
            t = sl[ev[1]].obj if len(ev) > 1 else None
            if op in ("w_int", "w_badlen"):
                x = t
                if len(x) == 0:
                    raise Disabled()
                if op == "w_int":
                    return guarded(lambda: x.__setitem__(0, k()))
                return guarded(lambda: x.__setitem__(slice(None), [k()] * (len(x) + 1)))
            if not is_table(t):
                raise Disabled()
            n, ncol = len(t), len(t._underlying)
            before = cells(t)
            if op == "T":
                return add(t.T)
            if op == "TT":
                return add(t.T.T, law=("same-cells", before) if n else None)     # a zero-row table has no cells to give back
            if op == "slice01":
                return add(t[0:1], law=("same-cells", [c[0:1] for c in before]))
            if op == "slice00":
                world.extra["special"] = True
                return add(t[0:0], law=("same-cells", [c[0:0] for c in before]))
            if op == "mask":
                if n == 0:
                    raise Disabled()
                m = [True] + [False] * (n - 1)
                return add(t[m], law=("same-cells", [[x for x, b in zip(c, m) if b] for c in before]))
            if op == "mask_none":
                if n == 0:
                    raise Disabled()
                world.extra["special"] = True
                return add(t[[False] * n], law=("same-cells", [[] for c in before]))
            if op == "select":
                names = [x for x in t.column_names() if isinstance(x, str)]
                if not names:
                    raise Disabled()
                return add(t[(names[-1],)])
            if op == "sort":
                if not ncol:
                    raise Disabled()
                return add(t.sort_by(t._underlying[0]))
            if op == "copy":
                return add(t.copy(), law=("same-cells", before))
            if op == "lshift_row":
                row = [k() for _ in range(ncol)]
                return add(t << row, law=("same-cells", [c + [r] for c, r in zip(before, row)]))
            if op == "lshift_badrow":
                return add(t << [k() for _ in range(ncol + 1)], law=("must-fail",))
            if op == "rshift_tlist":
                vals = [k() for _ in range(n)]
                return add(t >> vals, law=("same-cells", before + [vals]))
            if op == "rshift_tbadlist":
                return add(t >> [k() for _ in range(n + 1)], law=("must-not-be-ragged",) if ncol else None)
            if op == "rshift_tdict":
                vals = [k() for _ in range(n)]
                return add(t >> {"c": vals}, law=("same-cells", before + [vals]))
            if op == "rshift_tbaddict":
                return add(t >> {"c": [k() for _ in range(n + 1)]}, law=("must-not-be-ragged",) if ncol else None)
            if op in ("rshift_tv", "rshift_tdictv"):
                v = sl[ev[2]].obj
                r = (t >> v) if op == "rshift_tv" else (t >> {"c": v})
                if len(v) == n or not ncol:
                    return add(r, law=("same-cells", before + [list(v._underlying)]) if ncol else None)
                return add(r, law=("must-not-be-ragged",))
            if op == "rshift_tt":
                t2 = sl[ev[2]].obj
                r = t >> t2
                if len(t2) == n or not t2._underlying or not ncol:
                    return add(r, law=("same-cells", before + cells(t2)) if (ncol and t2._underlying) else None)
                return add(r, law=("must-not-be-ragged",))
            if op == "lshift_tt":
                t2 = sl[ev[2]].obj
                r = t << t2
                if len(t2._underlying) == ncol:
                    return add(r, law=("same-cells", [a + b for a, b in zip(before, cells(t2))]))
                return add(r, law=("must-fail",))
            if op in ("ijoin", "fjoin"):
                t2 = sl[ev[2]].obj
                if not ncol or not t2._underlying:
                    raise Disabled()
                meth = "inner_join" if op == "ijoin" else "full_join"
                return add(getattr(t, meth)(t2, left_on=t._underlying[0], right_on=t2._underlying[0], expect="many_to_many"))
            # ---------------- in place
            if op == "tw_cell":
                if not n or not ncol:
                    raise Disabled()
                return guarded(lambda: t.__setitem__((0, 0), k()))
            if op == "tw_row":
                if not n:
                    raise Disabled()
                return guarded(lambda: t.__setitem__(n - 1, [k() for _ in range(ncol)]))
            if op == "tw_badrow":
                if not n:
                    raise Disabled()
                return guarded(lambda: t.__setitem__(0, [k() for _ in range(ncol + 1)]))
            if op == "col_iop":
                # augmented assignment on a live column (c = t.cols(0); c <<= v): whatever it does to the name c, the table stays rectangular
                if not ncol:
                    raise Disabled()
                import operator as _op
                c = t.cols(0)
                return guarded(lambda: getattr(_op, ev[2])(c, k()))
            if op == "attr_iop":
                # t.a <<= v  ==  t.a = (t.a << v): a longer column must be refused, and nothing may have grown meanwhile
                if not ncol:
                    raise Disabled()
                import operator as _op
                acc = next((a for a, i in t._current_column_map().items() if i == 0), None)
                if acc is None:
                    raise Disabled()
                return guarded(lambda: setattr(t, acc, getattr(_op, ev[2])(getattr(t, acc), k())))
            if op == "tw_col":
                if not ncol:
                    raise Disabled()
                return guarded(lambda: t.__setitem__((slice(None), 0), [k() for _ in range(n)]))
            if op == "tw_badcol":
                if not ncol:
                    raise Disabled()
                return guarded(lambda: t.__setitem__((slice(None), 0), [k() for _ in range(n + 1)]))
            if op == "tw_region":
                t2 = sl[ev[2]].obj
                if not (ncol and len(t2._underlying)):
                    raise Disabled()
                kk = min(ncol, len(t2._underlying))
                return guarded(lambda: t.__setitem__((slice(0, n), slice(0, kk)), Table(list(t2._underlying[:kk]))))
            if op in ("t_setattr_list", "t_setattr_badlist", "t_setattr_vec"):
                if not ncol:
                    raise Disabled()
                acc = None
                for a in sorted(set(dir(t)) - set(object.__dir__(t))):
                    try:
                        if getattr(t, a) is t._underlying[0]:
                            acc = a
                            break
                    except Exception:
                        pass
                if acc is None:
                    raise Disabled()
                if op == "t_setattr_list":
                    value = [k() for _ in range(n)]
                elif op == "t_setattr_badlist":
                    value = [k() for _ in range(n + 1)]
                else:
                    value = sl[ev[2]].obj
                return guarded(lambda: setattr(t, acc, value))
            if op in ("t_rename", "t_rename_bad"):
                names = t.column_names()
                if not names or not isinstance(names[0], str):
                    raise Disabled()
                if op == "t_rename":
                    return guarded(lambda: t.rename_column(names[0], f"z{world.fresh()}"))
                return guarded(lambda: t.rename_columns([names[0], "no_such"], ["q", "r"]))
            if op == "rowread":
                def rd():
                    t.shape
                    if n:
                        list(t[0]); t[n - 1, 0] if ncol else None
                    [tuple(r) for r in t]
                try:
                    rd()
                except Exception:
                    pass
                return Outcome(readonly=True)
        except Disabled:
            raise
        except Exception as e:
            world.extra["special"] = True
            return Outcome(raised=e, readonly=True, note=None)
        raise Disabled()

    def check(self, world, pre, ev, out, agg, hist):
        case = {"history": [list(e) for e in hist]}
        if world.extra["special"]:
            agg.nontrivial += 1
        if out.raised is not None:
            agg.outcomes["operation-rejected:" + type(out.raised).__name__] += 1
            # a failed operation changes nothing
            # (whether a failed operation changed anything is judged by C01 / C08, not here: C02 is the invariant)
        # transition law of the event that just produced an object
        law = out.note if isinstance(out.note, tuple) else None
        if law and out.raised is None and out.new is not None:
            r = world.slots[out.new].obj
            if law[0] == "same-cells":
                if not is_table(r):
                    if any(len(c) for c in law[1]) or len(law[1]) == 0:
                        pass
                    agg.outcomes["structural-result-not-a-table"] += 1
                else:
                    got = [list(c._underlying) for c in r._underlying]
                    if len(got) != len(law[1]) or any(not same_list(g, w) for g, w in zip(got, law[1])):
                        agg.violation(V(f"event.{ev[0]}", "structural-operation-does-not-preserve-cells", case, law[1], got, _py(hist)))
                        return
                    agg.outcomes["cells-preserved"] += 1
            elif law[0] in ("must-not-be-ragged", "from-vectors"):
                if law[0] == "from-vectors" and law[2]:
                    if is_table(r):
                        got = [list(c._underlying) for c in r._underlying]
                        if got != law[1]:
                            agg.violation(V(f"event.{ev[0]}", "structural-operation-does-not-preserve-cells", case, law[1], got, _py(hist)))
                            return
                elif is_table(r):
                    lens = [len(c._underlying) for c in r._underlying]
                    if len(set(lens)) > 1 or (lens and lens[0] != len(r)):
                        agg.violation(V(f"event.{ev[0]}", "ragged-input-stored-as-table", dict(case, column_lengths=lens, len=len(r)),
                                        "rejected", "ragged Table", _py(hist)))
                        return
                    agg.violation(V(f"event.{ev[0]}", "ragged-input-accepted-as-table", dict(case, column_lengths=lens), "rejected", "Table", _py(hist)))
                    return
                else:
                    agg.outcomes["ragged-input-not-a-table"] += 1
            elif law[0] == "must-fail":
                agg.violation(V(f"event.{ev[0]}", "wrong-width-row-accepted", case, "error", repr(r)[:60], _py(hist)))
                return
        elif law and out.raised is not None and law[0] in ("must-not-be-ragged", "must-fail"):
            agg.outcomes["ragged-input-rejected"] += 1
        # the invariant, on every table in the pool
        for i, s in enumerate(world.slots):
            if s.kind != "tab":
                continue
            bad = table_invariant(s.obj)
            if bad:
                agg.violation(V("table-invariant", bad[0], dict(case, slot=i, detail=bad[1]), None, None, _py(hist)))
                agg.outcomes["invariant-broken"] += 1
                return
        agg.outcomes["rectangular"] += 1


def _py(hist):
    return "# history: " + repr([list(e) for e in hist])


# ------------------------------------------------------------------------------------------ E part
class _Cells(list):
    """cell matrix compared type-exactly (1 != 1.0 != True, b'z' != 122)"""
    def __eq__(self, other):
        return len(self) == len(other) and all(same_list(a, b) for a, b in zip(self, other))

    def __ne__(self, other):
        return not self.__eq__(other)


def unit_tables(unit):
    from serif import Vector, Table
    _, nrows, ncols = unit[:3]
    kind = unit[3] if len(unit) > 3 else "int"
    agg = Agg()
    from datetime import date as _date

    def val(c, r, kind=kind):
        """cell of column c (column 90 = a new column, row 70 = a new row), by cell kind"""
        k = ("int", "str", "bytes")[c % 3] if kind == "mixed" else kind
        n = 10 * c + r
        if k == "int":
            return n
        if k == "str":
            return f"s{n}" if n % 4 else ""             # multi-character strings and the empty string: one cell each
        if k == "bytes":
            return (b"ab%d" % n, b"z", b"")[n % 3]      # several bytes, one byte, none: one cell each
        if k == "float?":
            return None if (c + r) % 3 == 0 else n + 0.5
        if k == "date":
            return _date(2000 + c, 1 + r % 12, 1 + n % 28)
        if k == "tuple":
            return (n, n + 1)
        raise KeyError(k)

    def mk():
        return Table([Vector([val(c, r) for r in range(nrows)], name=f"c{c}") for c in range(ncols)]) if ncols else Table()

    base = [[val(c, r) for r in range(nrows)] for c in range(ncols)]
    agg.states += 1
    case = {"rows": nrows, "cols": ncols, "cell_kind": kind}

    def cells(t):
        return _Cells(list(c._underlying) for c in t._underlying)

    def expect_table(site, thunk, want, inplace=False):
        agg.evals += 1; agg.transitions += 1; agg.compared += 1
        t = mk()
        try:
            r = thunk(t)
        except Exception as e:
            agg.violation(V(site, "raises-" + type(e).__name__ + ("-zero-rows" if nrows == 0 else ""), case, want, repr(e)[:80]))
            return
        if not inplace and cells(t) != base:
            agg.violation(V(site, "operand-modified", case))
        if not is_table(r):
            if want and all(len(c) == 0 for c in want):
                agg.skipped["zero-row-result-not-a-table"] += 1
                return
            agg.violation(V(site, "result-not-a-table", case, want, repr(r)[:60]))
            return
        bad = table_invariant(r)
        if bad:
            agg.violation(V(site, bad[0], dict(case, detail=bad[1])))
            return
        if cells(r) != want:
            agg.violation(V(site, "cells-not-preserved", case, [list(map(repr, c)) for c in want], [list(map(repr, c)) for c in cells(r)]))
            return
        agg.outcomes["E-cells-preserved"] += 1

    def expect_reject(site, thunk):
        agg.evals += 1; agg.transitions += 1; agg.compared += 1
        t = mk()
        try:
            r = thunk(t)
        except Exception:
            agg.outcomes["E-ragged-rejected"] += 1
            if cells(t) != base:
                agg.violation(V(site, "failed-operation-changed-the-table", case))
            return
        if is_table(r):
            lens = [len(c._underlying) for c in r._underlying]
            agg.violation(V(site, "ragged-input-stored-as-table" if len(set(lens)) > 1 else "ragged-input-accepted-as-table", dict(case, column_lengths=lens)))
        else:
            agg.outcomes["E-ragged-rejected"] += 1

    bad = table_invariant(mk())
    if bad:
        agg.violation(V("Table.construct", bad[0], dict(case, detail=bad[1])))
    if ncols:
        new = [val(90, r) for r in range(nrows)]
        expect_table("rshift.vector", lambda t: t >> Vector(list(new), name="n"), base + [new])
        expect_table("rshift.dict", lambda t: t >> {"n": list(new)}, base + [new])
        expect_table("rshift.list", lambda t: t >> list(new), base + [new])
        expect_table("rshift.table", lambda t: t >> mk(), base + base)
        for d in (1, -1):
            if nrows + d < 0:
                continue
            wrong = [val(90, r) for r in range(nrows + d)]
            expect_reject("rshift.vector.wrong-length", lambda t: t >> Vector(list(wrong)))
            expect_reject("rshift.dict.wrong-length", lambda t: t >> {"n": list(wrong)})
            if wrong:
                expect_reject("rshift.list.wrong-length", lambda t: t >> list(wrong))
            expect_reject("setattr.wrong-length", lambda t: (setattr(t, "c0", list(wrong)), t)[1])
            expect_reject("Table([...]).unequal", lambda t: Table(list(t._underlying) + [Vector(list(wrong))]))
            expect_reject("Table({...}).unequal", lambda t: Table({"a": list(base[0]), "b": list(wrong)}))
            if nrows and wrong:
                expect_reject("Vector([...]).unequal", lambda t: Vector([Vector(list(base[0])), Vector(list(wrong))]))
        row = [val(c, 70) for c in range(ncols)]
        if kind != "tuple":       # a row given as a plain sequence whose cells are themselves sequences is ambiguous (not judged)
            expect_table("lshift.row", lambda t: t << list(row), [b + [x] for b, x in zip(base, row)])
            expect_table("lshift.row-tuple", lambda t: t << tuple(row), [b + [x] for b, x in zip(base, row)])
            if nrows:
                expect_table("lshift.row-of-a-table", lambda t: t << mk()[0], [b + [b[0]] for b in base])
                expect_table("lshift.row.twice", lambda t: (t << list(row)) << list(row), [b + [x, x] for b, x in zip(base, row)])
        expect_table("lshift.table", lambda t: t << mk(), [b + b for b in base])
        # ---- a row whose cells are themselves sequences (a (start, stop) pair, a list, the empty tuple): whether such a cell is ONE
        # cell or several is the library's business - but whatever comes back as a Table is rectangular, never ragged
        for cellname, cell in (("pair", (1, 2)), ("list", [1, 2, 3]), ("empty-tuple", ()), ("nested", ((1, 2), 3)), ("range", range(2))):
            for pos in range(ncols):
                row2 = list(row)
                row2[pos] = cell
                agg.evals += 1; agg.transitions += 1; agg.compared += 1
                t = mk()
                try:
                    import warnings as _w
                    with _w.catch_warnings():
                        _w.simplefilter("ignore")
                        r = t << row2
                except Exception:
                    agg.outcomes["E-ragged-rejected"] += 1
                    continue
                if is_table(r):
                    bad = table_invariant(r)
                    lens = [len(c._underlying) for c in r._underlying]
                    if bad or len(set(lens)) > 1:
                        agg.violation(V("lshift.row.sequence-cell", "ragged-input-stored-as-table", dict(case, cell=cellname, position=pos, column_lengths=lens)))
                        continue
                agg.outcomes["E-ragged-rejected" if not is_table(r) else "E-cells-preserved"] += 1
        # ---- an appended row of a WIDER kind promotes the column (a typed TABLE of another kind is refused by design); the cells already there keep their VALUES (judged by ==,
        # so that a conversion 1 -> 1.0 passes; the columns hold values a lossy conversion would change: ints beyond 2**53, dates
        # that a datetime at midnight does not equal)
        if kind in ("int", "date") and nrows:
            from datetime import datetime as _dt
            big = 2 ** 53 + 1

            def mkw():
                return Table([Vector([(big + val(c, r)) if kind == "int" else val(c, r) for r in range(nrows)], name=f"c{c}") for c in range(ncols)])
            wbase = [[(big + val(c, r)) if kind == "int" else val(c, r) for r in range(nrows)] for c in range(ncols)]
            wrow = [(c + 0.5) if kind == "int" else _dt(2001, 2, 3, 4, 5, c) for c in range(ncols)]
            for site, thunk, want in (
                    ("lshift.row.wider-kind", lambda t: t << list(wrow), [b + [x] for b, x in zip(wbase, wrow)]),
                    ("lshift.row.wider-kind.twice", lambda t: (t << list(wrow)) << list(wrow), [b + [x, x] for b, x in zip(wbase, wrow)])):
                agg.evals += 1; agg.transitions += 1; agg.compared += 1
                t = mkw()
                try:
                    r = thunk(t)
                except Exception as e:
                    agg.violation(V(site, "raises-" + type(e).__name__, case, [list(map(repr, c)) for c in want], repr(e)[:80]))
                    continue
                got = [list(c._underlying) for c in r._underlying] if is_table(r) else None
                src = [list(c._underlying) for c in t._underlying]
                if src != wbase:
                    agg.violation(V(site, "operand-modified", case, [list(map(repr, c)) for c in wbase], [list(map(repr, c)) for c in src]))
                elif got is None or table_invariant(r) or got != want:
                    agg.violation(V(site, "cells-not-preserved", case, [list(map(repr, c)) for c in want], [list(map(repr, c)) for c in got] if got is not None else repr(r)[:60]))
                else:
                    agg.outcomes["E-cells-preserved"] += 1
        if nrows:
            # a TABLE of exactly one row is appended column by column, whatever its cells are
            expect_table("lshift.table-of-one-row", lambda t: t << mk()[0:1], [b + b[0:1] for b in base])
            expect_table("lshift.table-of-one-row-last", lambda t: t << mk()[nrows - 1:nrows], [b + b[nrows - 1:] for b in base])
        for d in (1, -1):
            if ncols + d < 1:
                continue
            expect_reject("lshift.row.wrong-width", lambda t: t << [val(0, 70)] * (ncols + d))
        if nrows:
            expect_table("T.T", lambda t: t.T.T, base)
        for sl in (slice(0, 1), slice(1, None), slice(0, 0), slice(None, None, -1), slice(None, None, 2), slice(nrows - 1, None, -1), slice(None, None, -2)):
            expect_table("row-slice", lambda t: t[sl], [b[sl] for b in base])
            # the same rows through a 2-D key: with a column slice, with the names, with a reversed column slice
            if nrows and len(base[0][sl]):
                expect_table("row-slice.2d-colslice", lambda t: t[sl, 0:ncols], [b[sl] for b in base])
                expect_table("row-slice.2d-names", lambda t: t[sl, tuple(f"c{c}" for c in range(ncols))] if ncols > 1 else t[sl, ("c0",)], [b[sl] for b in base])
                expect_table("row-slice.2d-colslice-reversed", lambda t: t[sl, ::-1], [b[sl] for b in base][::-1])
        for m in itertools.product([True, False], repeat=nrows):
            if nrows:
                expect_table("row-mask", lambda t: t[list(m)], [[x for x, f in zip(b, m) if f] for b in base])
        expect_table("setattr.column", lambda t: (setattr(t, "c0", list(new)), t)[1], [new] + base[1:], inplace=True)
        if nrows:
            expect_table("setitem.row", lambda t: (t.__setitem__(nrows - 1, list(row)), t)[1], [b[:-1] + [x] for b, x in zip(base, row)], inplace=True)
            expect_reject("setitem.row.wrong-width", lambda t: (t.__setitem__(0, [1] * (ncols + 1)), t)[1])
    agg.sample(case)
    return agg


def check(ctx):
    agg = Agg()
    depth = ctx.pick(3, 4)
    drv = Driver(pool=ctx.pick(4, 4))
    explorer.bfs(drv, depth, agg)
    units = [("tab", r, c, k) for r in range(0, 4) for c in range(0, 4) for k in ("int", "str", "bytes", "mixed", "float?", "date", "tuple")]
    for p in core.pmap(unit_tables, units):
        agg.merge(p)
    agg.notes["bound"] = f"H: depth<={depth} from 4 seed worlds, pool<=4; E: tables 0..3 x 0..3 x 7 cell kinds (int, str incl. empty, bytes of 0/1/several bytes, mixed, nullable float, date, tuple); appended rows of a wider kind on int / date tables"
    return agg


def coverage_goals(ctx, agg):
    return [k for k in ("rectangular", "cells-preserved", "E-cells-preserved", "E-ragged-rejected") if agg.outcomes.get(k, 0) < 20]


def replay(rec):
    case = rec.get("case") or {}
    if "history" not in case:
        return None
    hist = tuple(tuple(e) for e in case["history"])
    drv = Driver()
    agg = Agg()
    w, pre, out = explorer.replay(drv, hist)
    drv.check(w, pre, hist[-1], out, agg, hist)
    return set(agg.viol)
