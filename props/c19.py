"""C19 — CSV ingestion is faithful to the file (Engine E)."""
from __future__ import annotations

import csv
import io
import itertools
import os
import tempfile

from mc import core
from mc.core import Agg, V
from mc.models import canon_elem, expected_dtype, same_list, schema_of

RULE = ("every grid of cell texts: header width 1..2 (verbatim, repeated, blank, numeric-looking names), 0..2 data records, each record of "
        "full or short length, over an alphabet of 22 cell texts (blank, padded, int/float look-alikes incl. inf/nan/1_000/0x1/unicode digits, "
        "text, embedded delimiter/quote/LF/CRLF/CR, unicode); written by csv.writer; delimiters , ; TAB; has_header True/False; input as "
        "StringIO, open file and path. non-trivial = grid with a short record, a blank cell, or a cell needing quoting")
ASSUMPTIONS = ["records LONGER than the header are not specified and not generated",
               "the csv module's own reading of the generated text is the lexical oracle (csv.reader on the same text)",
               "all-blank columns: only nullability of the dtype is judged (bottom of the lattice)"]

CELLS_FULL = ["", " ", "1", " 2 ", "1.5", "abc", "a,b", 'say "hi"', "x\ny", "1e3", "nan", "inf", "-inf", "Infinity", "0x1", "1_000",
              "é", "x\r\ny", "c\rd", "+3", ".5", "a;b", "t\tu", "١٢", " pad ", "True", "None", "1 2", "2", "2.0", "0", "-0.0", "1000"]
# fragments of numbers: none of them is a number, each is its own stripped text
CELLS_FRAGMENTS = ["-", "+", ".", "e", "-.", "1e", "e5", "+-1", "--1", "1-", "0x", "1__0", "_1", "1_", "٣.٥", "1,5", "٫", "−1", "+ 1", "", "7"]
CELLS_SMALL = ["", " ", "7", " 2 ", "1.5", "abc", "inf", "a,b", "x\r\ny"]
# characters that str.splitlines() treats as line boundaries but the csv module (and a text file opened the usual way) does not
CELLS_SEPS = ["a\x0bb", "a\x0cb", "a\x1cb", "a\x1db", "a\x1eb", "a\x85b", "a\u2028b", "a\u2029b", "7", ""]
HEADERS1 = [("h",), ("",), ("1",), (" x ",), ("a,b",)]
HEADERS2 = [("h", "g"), ("h", "h"), ("", ""), ("1", "1.5"), ("A", "a")]
DELIMS = [",", ";", "\t"]


def infer_cell(s):
    if not s or s.strip() == "":
        return None
    s = s.strip()
    try:
        return int(s)
    except ValueError:
        pass
    try:
        return float(s)
    except ValueError:
        pass
    return s


def make_text(header, records, delim, has_header):
    buf = io.StringIO(newline="")
    w = csv.writer(buf, delimiter=delim)
    if has_header:
        w.writerow(list(header))
    for r in records:
        w.writerow(list(r))
    return buf.getvalue()


def expected_table(text, delim, has_header, width_hint):
    rows = list(csv.reader(io.StringIO(text, newline=""), delimiter=delim))
    if not rows:
        return None, [], []
    if has_header:
        header, data = rows[0], rows[1:]
    else:
        header, data = [f"col_{i}" for i in range(len(rows[0]))], rows
    cols = []
    for j in range(len(header)):
        cols.append([infer_cell(r[j]) if j < len(r) else None for r in data])
    return header, cols, data


def run_case(agg, tmpdir, header, records, delim, has_header, how, allow_overlong=False):
    from serif import read_csv
    text = make_text(header, records, delim, has_header)
    names, cols, data = expected_table(text, delim, has_header, len(header))
    if names is not None and len(names) == 0:
        agg.skipped["zero-column-file (blank first line)"] += 1
        return
    overlong = bool(data) and any(len(r) > len(names) for r in data)
    if overlong and not allow_overlong:
        agg.skipped["record-longer-than-header"] += 1
        return
    # (unit 'ragged': what happens to the surplus cells of an over-long record is not stated - refusing the file is accepted there -
    # but a table that comes back still has one column per header cell, one row per record, and the stated cells)
    case = {"text": text, "delimiter": delim, "has_header": has_header, "input": how}
    py = (f"import io\nfrom serif import read_csv\nt = read_csv(io.StringIO({text!r}, newline=''), delimiter={delim!r}, has_header={has_header})\n"
          f"print(t.column_names(), [list(c) for c in t.cols()])")
    agg.evals += 1; agg.transitions += 1
    try:
        if how == "stringio":
            t = read_csv(io.StringIO(text, newline=""), delimiter=delim, has_header=has_header)
        else:
            p = os.path.join(tmpdir, "in.csv")
            with open(p, "w", encoding="utf-8", newline="") as f:
                f.write(text)
            if how == "path":
                t = read_csv(p, delimiter=delim, has_header=has_header)
            elif how == "file-after-preamble":
                # a handle the caller has already read a line from: parsing starts where the handle stands
                with open(p, "w", encoding="utf-8", newline="") as f:
                    f.write("# not,part,of\n" + text)
                with open(p, "r", encoding="utf-8", newline="") as f:
                    f.readline()
                    t = read_csv(f, delimiter=delim, has_header=has_header)
            elif how == "file-after-next":
                # ... advanced by ITERATING (next(f), a for loop left with break): a text file refuses tell() from then on
                with open(p, "w", encoding="utf-8", newline="") as f:
                    f.write("# not,part,of\n" + text)
                with open(p, "r", encoding="utf-8", newline="") as f:
                    next(f)
                    t = read_csv(f, delimiter=delim, has_header=has_header)
            elif how == "pipe":
                # a stream that cannot seek or tell at all (a pipe, as stdin of a filter program is)
                rfd, wfd = os.pipe()
                with os.fdopen(wfd, "w", encoding="utf-8", newline="") as w:
                    w.write(text)
                with os.fdopen(rfd, "r", encoding="utf-8", newline="") as f:
                    t = read_csv(f, delimiter=delim, has_header=has_header)
            else:
                with open(p, "r", encoding="utf-8", newline="") as f:
                    t = read_csv(f, delimiter=delim, has_header=has_header)
                    # the handle belongs to the caller: still open, and reading it again from the start gives the same table
                    if f.closed:
                        agg.violation(V("read_csv.file", "closes-the-callers-handle", case, "open", "closed", py))
                        return
                    f.seek(0)
                    t_again = read_csv(f, delimiter=delim, has_header=has_header)
                    if [(c._name, [repr(x) for x in c._underlying]) for c in t_again._underlying] != [(c._name, [repr(x) for x in c._underlying]) for c in t._underlying]:
                        agg.violation(V("read_csv.file", "second-read-of-the-same-handle-differs", case, None, None, py))
                        return
    except Exception as e:
        if overlong:
            agg.skipped["file-with-an-over-long-record-refused"] += 1
            return
        kind = "empty-input" if names is None else ("header-only" if not data else "data")
        agg.violation(V(f"read_csv.{how}", f"raises-{type(e).__name__}-on-{kind}", case, {"names": names, "columns": cols}, repr(e)[:100], py))
        return
    agg.compared += 1
    if type(t).__name__ != "Table":
        agg.violation(V(f"read_csv.{how}", "result-not-a-table", case, None, repr(t)[:60], py))
        return
    if names is None:
        if len(t._underlying) != 0 or len(t) != 0:
            agg.violation(V(f"read_csv.{how}", "empty-input-not-empty-table", case, [], [c._name for c in t._underlying], py))
        else:
            agg.outcomes["empty-input-ok"] += 1
        return
    got_names = [c._name for c in t._underlying]
    if got_names != list(names):
        sym = "repeated-header-names-collapsed" if len(got_names) < len(names) else "header-names-not-verbatim"
        agg.violation(V(f"read_csv.{how}", sym + ("-header-only" if not data else ""), case, list(names), got_names, py))
        return
    got_cols = [list(c._underlying) for c in t._underlying]
    if len(t) != len(data) or any(len(c) != len(data) for c in got_cols):
        agg.violation(V(f"read_csv.{how}", "wrong-number-of-rows", case, len(data), [len(c) for c in got_cols], py))
        return
    for j, (g, w) in enumerate(zip(got_cols, cols)):
        if not same_list(g, w):
            bad = [(a, b) for a, b in zip(g, w) if canon_elem(a) != canon_elem(b)]
            a, b = bad[0]
            if b is None:
                sym = "blank-or-missing-cell-not-None"
            elif isinstance(b, (int, float)) and isinstance(a, str):
                sym = f"{type(b).__name__}-look-alike-left-as-text"
            elif isinstance(b, str) and isinstance(a, str):
                sym = "text-cell-altered"
            elif isinstance(b, int) and isinstance(a, float):
                sym = "int-read-as-float"
            else:
                sym = "wrong-cell-value"
            agg.violation(V(f"read_csv.{how}", sym, dict(case, column=j), w, g, py))
            return
    # column dtypes by the ordinary inference rule
    for j, c in enumerate(t._underlying):
        vals = cols[j]
        if not vals:
            continue
        wk, wn = expected_dtype(vals)
        s = schema_of(c)
        if s is None:
            agg.violation(V(f"read_csv.{how}", "column-without-dtype", dict(case, column=j), (wk, wn), None, py))
            return
        if wk is None:
            okk = s[1] is True
        else:
            okk = s == (wk.__name__, wn)
        if not okk:
            agg.violation(V(f"read_csv.{how}", "column-dtype-not-by-inference-rule", dict(case, column=j, values=vals),
                            (wk.__name__ if wk else None, wn), s, py))
            return
    agg.outcomes["header-only-ok" if not data else "grid-ok"] += 1


def record_patterns(w, cells, nrec):
    """every list of nrec records; each record is full (w cells) or short (w-1 cells)"""
    per = []
    for L in ((w, w - 1) if w >= 1 else (w,)):
        per += [tuple(x) for x in itertools.product(cells, repeat=L)]
    return itertools.product(per, repeat=nrec)


def nontrivial(records, w):
    return any(len(r) < w for r in records) or any((c.strip() == "" or any(ch in c for ch in ',;"\n\r\t')) for r in records for c in r)


def run_unit(unit):
    agg = Agg()
    tmpdir = tempfile.mkdtemp(prefix="vcheck_csv_")
    try:
        what = unit[0]
        if what == "w1":
            _, cells, header = unit
            for nrec in (0, 1, 2):
                for records in record_patterns(1, cells, nrec):
                    agg.states += 1
                    if nontrivial(records, 1):
                        agg.nontrivial += 1
                    for delim in DELIMS:
                        for hh in (True, False):
                            for how in ("stringio", "path", "file", "file-after-preamble", "file-after-next", "pipe"):
                                if how != "stringio" and (delim != "," or nrec == 2 and len(cells) > 12 and records[0] != records[-1]):
                                    continue
                                run_case(agg, tmpdir, header, records, delim, hh, how)
        elif what == "ragged":
            # width-3 headers (plain; and cells holding a line break, the delimiter, quotes) x 1..3 records of 1..4 cells each: short
            # and over-long records in one file, in every order and combination of lengths
            _, header = unit
            for nrec in (1, 2, 3):
                for lens in itertools.product((1, 2, 3, 4), repeat=nrec):
                    for variant in ("numbers", "with-blank", "text"):
                        records = []
                        for i, L in enumerate(lens):
                            rec = [str(10 * (i + 1) + j) if variant != "text" else f"t{i}{j}" for j in range(L)]
                            if variant == "with-blank" and L >= 2:
                                rec[1] = ""
                            records.append(tuple(rec))
                        agg.states += 1; agg.nontrivial += 1
                        for hh in (True, False):
                            for how in ("stringio", "path"):
                                run_case(agg, tmpdir, header, records, ",", hh, how, allow_overlong=True)
        elif what == "w2":
            _, cells, header, first = unit
            for nrec in (0, 1, 2):
                for records in record_patterns(2, cells, nrec):
                    if nrec >= 1 and first is not None and (len(records[0]) < 1 or records[0][0] != first):
                        continue
                    if nrec == 0 and first is not None and first != cells[0]:
                        continue
                    agg.states += 1
                    if nontrivial(records, 2):
                        agg.nontrivial += 1
                    for delim in ((",", ";") if nrec == 2 else DELIMS):
                        for hh in (True, False):
                            run_case(agg, tmpdir, header, records, delim, hh, "stringio")
                    if nrec <= 1:
                        run_case(agg, tmpdir, header, records, ",", True, "path")
                        run_case(agg, tmpdir, header, records, ",", True, "file")
        elif what == "long":
            # size thresholds: long files (33..1025 records) and wide files (12, 40 columns); a long run of one cell text with one
            # deviating cell (other kind / blank / quoted / short record) at the front, in the middle, at the very end
            _, run_text = unit
            odd = ["", "7", "2.5", "x", "a,b", "x\ny", " 8 "]
            for k in (33, 65, 129, 1025):
                for o in odd:
                    for place in ("front", "middle", "end"):
                        col = [run_text] * k
                        col.insert({"front": 0, "middle": k // 2, "end": k}[place], o)
                        records = [(c, str(i)) for i, c in enumerate(col)]
                        agg.states += 1; agg.nontrivial += 1
                        for how in (("stringio", "path", "file") if k <= 129 else ("stringio",)):
                            run_case(agg, tmpdir, ("h", "n"), records, ",", True, how)
                # a short record (one cell) at the very end / in the middle of a long file
                for place in (k // 2, k - 1):
                    records = [(run_text, str(i)) for i in range(k)]
                    records[place] = (run_text,)
                    agg.states += 1; agg.nontrivial += 1
                    run_case(agg, tmpdir, ("h", "n"), records, ",", True, "stringio")
            for width in (12, 40):
                header = tuple(f"c{j}" if j % 5 else "dup" for j in range(width))
                records = [tuple(run_text if (i + j) % 7 else ["", "3", "y"][(i + j) % 3] for j in range(width)) for i in range(9)]
                for hh in (True, False):
                    agg.states += 1; agg.nontrivial += 1
                    run_case(agg, tmpdir, header, records, ";", hh, "stringio")
                    run_case(agg, tmpdir, header, records, ",", hh, "path")
        elif what == "empty":
            for delim in DELIMS:
                for hh in (True, False):
                    for how in ("stringio", "path", "file"):
                        agg.states += 1
                        run_case(agg, tmpdir, (), [], delim, False, how) if not hh else None
                        # truly empty text
                        from serif import read_csv
                        try:
                            t = read_csv(io.StringIO(""), delimiter=delim, has_header=hh)
                            agg.evals += 1; agg.compared += 1
                            if len(t._underlying) != 0:
                                agg.violation(V("read_csv.stringio", "empty-input-not-empty-table", {"text": "", "has_header": hh}))
                            else:
                                agg.outcomes["empty-input-ok"] += 1
                        except Exception as e:
                            agg.violation(V("read_csv.stringio", f"raises-{type(e).__name__}-on-empty-input", {"text": "", "has_header": hh}))
    finally:
        for f in os.listdir(tmpdir):
            os.unlink(os.path.join(tmpdir, f))
        os.rmdir(tmpdir)
    agg.sample({"unit": [repr(u)[:60] for u in unit]})
    return agg


def check(ctx):
    cells1 = CELLS_FULL
    cells2 = CELLS_FULL[:16] if ctx.thorough else CELLS_SMALL
    units = [("w1", cells1, h) for h in HEADERS1]
    for h in (HEADERS2 if ctx.thorough else HEADERS2[:3]):
        for first in cells2:
            units.append(("w2", cells2, h, first))
    units += [("w1", CELLS_SEPS, h) for h in (("h",), ("a\x0cb",))]
    units += [("w2", CELLS_SEPS, ("h", "g"), first) for first in CELLS_SEPS]
    units += [("long", txt) for txt in ("7", "2.5", "x", "")]
    units += [("w1", CELLS_FRAGMENTS, ("h",))]
    units += [("w2", CELLS_FRAGMENTS[:8] + ["", "7"], ("h", "g"), first) for first in CELLS_FRAGMENTS[:8] + ["", "7"]]
    units.append(("empty",))
    units += [("ragged", h) for h in (("a", "b", "c"), ("unit\nprice", "q,ty", 'say "x"'), ("a", "a", ""))]
    agg = core.merge_all(core.pmap(run_unit, units))
    agg.notes["bound"] = f"width-1 grids over {len(cells1)} cell texts, width-2 grids over {len(cells2)}; <=2 records; inputs: StringIO, path, handle, handle advanced by readline / by next(), pipe"
    agg.notes["exhaustive"] = True
    return agg


def coverage_goals(ctx, agg):
    return [k for k in ("grid-ok",) if agg.outcomes.get(k, 0) < 1000]


def replay(rec):
    return None
