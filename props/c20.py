"""C20 — repr never fails and never misstates shape, dtype or data (Engine E)."""
from __future__ import annotations

import itertools
import re
from datetime import date, datetime

from mc import core
from mc.core import Agg, V
from mc.models import obs, schema_of

RULE = ("vectors: 10 element kinds x lengths {0,1,2,L-1,L,L+1,2L+1} around the active preview limit L x None placement {none,first,last,all} "
        "x special floats (nan, +-inf, -0.0, 1e308, 1e-5) x 5 name patterns x every set_repr_rows value in {None,0,1,2,3,4,5,12,13}; "
        "tables: widths {0,1,2,9,10,11,12} x rows {0,1,L,L+1} x dtype layouts (homogeneous, mixed, one odd column at every position incl. the "
        "hidden middle, nullable variants) x name patterns x global and per-table row limits; repr parsed: footer counts/dtypes, body "
        "line count and per-row tokens, ellipsis position, header names. non-trivial = truncated output, special value, or odd dtype column")
ASSUMPTIONS = ["an empty vector prints '# empty ...' (it misstates nothing)",
               "for an odd limit n the implementation shows 2*(n//2) rows; lengths in (2*(n//2), n] are not judged",
               "cell formatting is not re-implemented: each shown row must contain a distinguishing token of its value(s)",
               "a real number shown in a float vector must read back (float()) as its value within 1e-6, or be printed as True / False"]

NAN, INF = float("nan"), float("inf")
VARIANT = [0]
D = lambda i: date(2020, 1, 1 + i % 28)
T = lambda i: datetime(2020, 1, 1 + i % 28, 3, 4, 5)
GEN = {
    "bool": lambda i: i % 2 == 0, "int": lambda i: 1000 + i, "float": lambda i: i + 0.25, "complex": lambda i: complex(i, 1),
    "str": lambda i: f"s{i}q", "bytes": lambda i: f"b{i}".encode(), "date": D, "datetime": T,
    "object": lambda i: (f"o{i}" if i % 2 else 5000 + i), "list": lambda i: [i, i + 1],
}
class _StrictEq:
    """a record class whose __eq__ only knows its own kind (other.x raises AttributeError for a str)"""
    def __init__(self, x):
        self.x = x

    def __eq__(self, other):
        return self.x == other.x

    def __hash__(self):
        return hash(self.x)

    def __repr__(self):
        return f"rec{self.x}q"


class _AnyEq:
    """compares equal to everything (unittest.mock.ANY does): it is still a value of its own and shown as such"""
    def __init__(self, x):
        self.x = x

    def __eq__(self, other):
        return True

    def __ne__(self, other):
        return False

    def __hash__(self):
        return 1

    def __repr__(self):
        return f"any{self.x}q"


class _NoBoolEq:
    """__eq__ returns something that has no truth value (array-like objects do)"""
    def __init__(self, x):
        self.x = x

    def __eq__(self, other):
        return _NoBool()

    def __hash__(self):
        return 2

    def __repr__(self):
        return f"arr{self.x}q"


class _NoBool:
    def __bool__(self):
        raise TypeError("truth value is ambiguous")


GEN["strict-eq"] = lambda i: _StrictEq(i)
GEN["any-eq"] = lambda i: _AnyEq(i)
GEN["nobool-eq"] = lambda i: _NoBoolEq(i)
SPECIAL_FLOATS = [NAN, INF, -INF, -0.0, 1e308, 1e-5, 2.0,
                  # ints held by a float vector (an int belongs to the float kind): small, beyond 2**53, beyond the float range
                  3, 2 ** 53 + 1, 10 ** 400, -10 ** 400, True, False]
SETTINGS = [None, 0, 1, 2, 3, 4, 5, 12, 13]
NAMESV = [None, "nm", "x y", "sum", "", 5, (1, 2), 2.5, [1, 2], {"k": 1}]          # names need not be strings (Table({1: [...]})), nor hashable (v.name = [...])


def token(v, kind=None):
    if v is None:
        return "None"
    if isinstance(v, bool):
        return str(v)
    if isinstance(v, float):
        if v != v:
            return "nan"
        if v in (INF, -INF):
            return "inf"
        if v == 1e308:
            return "1000000"
        if v == 1e-5:
            return "1e-05"
        if v == int(v):
            return f"{v:.1f}"
        return f"{v:g}"
    if isinstance(v, datetime):
        return str(v)
    if isinstance(v, date):
        return v.isoformat()
    if isinstance(v, bytes):
        return str(v)
    if isinstance(v, str):
        return v
    return str(v)


def dtype_token(vec):
    s = vec.schema()
    if s is None:
        return "object"
    return s.kind.__name__ + ("?" if s.nullable else "")


def limit_of(setting):
    n = 12 if setting is None else setting
    return n, n // 2


def shown_indices(length, half):
    if length > 2 * half:
        return list(range(half)) + ["..."] + list(range(length - half, length))
    return list(range(length))


def needs_quote(name):
    if not isinstance(name, str):
        return True
    if not name or not name.isidentifier() or name[0].isdigit():
        return True
    try:
        float(name)
        return True
    except ValueError:
        pass
    from mc.models import reserved_names
    return name.lower() in reserved_names()


def check_vector(agg, values, name, setting, declared=None):
    import serif
    from serif import Vector
    n, half = limit_of(setting)
    case = {"values": values if len(values) <= 6 else values[:3] + ["..."] + values[-3:], "length": len(values), "name": name, "set_repr_rows": setting}
    serif.set_repr_rows(setting)
    agg.evals += 1; agg.transitions += 1; agg.states += 1
    try:
        VARIANT[0] += 1
        from mc import provenance
        route, v = provenance.vector_variant(list(values), name, VARIANT[0])
        case["route"] = route
        before = obs(v)
        fp = v.fingerprint()
        py = f"import serif\nfrom serif import Vector\nserif.set_repr_rows({setting!r})\nprint(repr(Vector({list(values)[:8]!r} + ..., name={name!r})))"
        text = repr(v)
    except Exception as e:
        sp = [x for x in values if isinstance(x, float) and (x != x or x in (INF, -INF))]
        agg.violation(V("repr.vector", "raises-" + type(e).__name__ + ("-non-finite-float" if sp else ""), case, "a string", repr(e)[:80]))
        return
    finally:
        serif.set_repr_rows(None)
    agg.compared += 1
    if obs(v) != before or v.fingerprint() != fp:
        agg.violation(V("repr.vector", "object-changed-by-repr", case))
        return
    judge_vector_text(agg, text, v, values, name, n, half, case)


def _reads_back_rule(v, val):
    s = v.schema()
    return (s is not None and s.kind is float and isinstance(val, (bool, int, float)) and val == val and abs(val) < 1e300)


def _reads_back(txt, val):
    if txt in ("True", "False"):
        return isinstance(val, bool) and txt == str(val)
    try:
        x = float(txt)
    except ValueError:
        return False
    f = float(val)
    return x == f or abs(x - f) <= 1e-6 * max(abs(f), 1e-300)


def judge_vector_text(agg, text, v, values, name, n, half, case, site="repr.vector"):
    if not isinstance(text, str):
        agg.violation(V(site, "not-a-string", case))
        return
    lines = text.split("\n")
    L = len(values)
    if L == 0:
        if "empty" not in lines[-1] and not re.search(r"# 0 element", lines[-1]):
            agg.violation(V(site, "empty-vector-footer-misstates", case, "# empty", lines[-1]))
        else:
            agg.outcomes["vector-ok"] += 1
        return
    m = re.fullmatch(r"# (\d+) element vector <([^>]*)>", lines[-1])
    if not m:
        agg.violation(V(site, "footer-not-parseable", case, "# N element vector <dtype>", lines[-1]))
        return
    if int(m.group(1)) != L:
        agg.violation(V(site, "footer-count-wrong", case, L, int(m.group(1))))
        return
    if m.group(2) != dtype_token(v):
        agg.violation(V(site, "footer-dtype-wrong", case, dtype_token(v), m.group(2)))
        return
    body = lines[:-2]
    if lines[-2] != "":
        agg.violation(V(site, "no-blank-line-before-footer", case))
        return
    if name:
        head = repr(name) if needs_quote(name) else name
        if not body or body[0].strip() != head:
            agg.violation(V(site, "header-does-not-show-stored-name", case, head, body[0] if body else None))
            return
        body = body[1:]
    if n % 2 == 1 and 2 * half < L <= n:
        agg.skipped["odd-limit-boundary-length"] += 1
        return
    want = shown_indices(L, half)
    if len(body) != len(want):
        sym = "truncated-preview-row-count-wrong" if L > 2 * half else "short-data-not-fully-shown"
        if half == 0 and len(body) == L + 1:
            sym = "zero-limit-prints-ellipsis-then-everything"
        agg.violation(V(site, sym, case, len(want), len(body)))
        return
    for idx, line in zip(want, body):
        if idx == "...":
            if line.strip() != "...":
                agg.violation(V(site, "ellipsis-misplaced", case, "...", line))
                return
        elif _reads_back_rule(v, values[idx]):
            # a real number shown in a float vector (floats, and the ints and bools such a vector may hold) must READ BACK as its
            # value: '1.0' or 'True' for True, never text that denotes no number at all
            if not _reads_back(line.strip(), values[idx]):
                agg.violation(V(site, "numeric-cell-does-not-read-back-as-its-value", dict(case, row=idx), repr(values[idx]), line))
                return
        elif token(values[idx]) not in line:
            agg.violation(V(site, "row-shows-wrong-value", dict(case, row=idx), token(values[idx]), line))
            return
    if L > 2 * half:
        agg.nontrivial += 1
        agg.outcomes["vector-truncated-ok"] += 1
    else:
        agg.outcomes["vector-ok"] += 1




def untyped_and_nested(agg, setting):
    """(a) vectors and tables that have no dtype yet (built from empty sequences): repr leaves them exactly as they were - still
    untyped, and a row appended afterwards types them as it types a never-printed twin;
    (b) a vector whose elements are vectors (a ragged stack), longer than the preview limit, head and tail of equal-length
    elements: exactly the first and last elements are shown around one ellipsis, each by its own values"""
    import serif, warnings as _w
    from serif import Vector, Table
    n, half = limit_of(setting)
    makers = [("Vector([])", lambda: Vector([])), ("Vector([], name='x')", lambda: Vector([], name="x")), ("Table({'a': [], 'b': []})", lambda: Table({"a": [], "b": []})),
              ("Table([Vector([]), Vector([])])", lambda: Table([Vector([], name="p"), Vector([], name="q")]))]
    for label, mk in makers:
        agg.evals += 1; agg.transitions += 2; agg.states += 1; agg.nontrivial += 1; agg.compared += 1
        case = {"object": label, "set_repr_rows": setting, "steps": ["repr", "look at the dtypes", "append a row / an element"]}
        serif.set_repr_rows(setting)
        try:
            with _w.catch_warnings():
                _w.simplefilter("ignore")
                a, twin = mk(), mk()
                before = obs(a)
                text = repr(a)
                after = obs(a)
                row = [1, "s"] if type(a).__name__ == "Table" else 5
                grown, grown_twin = obs(a << row), obs(twin << row)
        except Exception as e:
            agg.violation(V("repr.untyped", "raises-" + type(e).__name__, case, None, repr(e)[:80]))
            continue
        finally:
            serif.set_repr_rows(None)
        if not isinstance(text, str):
            agg.violation(V("repr.untyped", "not-a-string", case))
        elif after != before:
            agg.violation(V("repr.untyped", "object-changed-by-repr", case, before, after))
        elif grown != grown_twin:
            agg.violation(V("repr.untyped", "object-behaves-differently-after-repr", case, grown_twin, grown))
        else:
            agg.outcomes["vector-ok"] += 1
    if half >= 1:
        for total in sorted({2 * half + 1, 2 * half + 2, 2 * half + 5}):
            for odd_at in ("last", "first", "middle"):
                odd = {"last": total - 1, "first": 0, "middle": total // 2}[odd_at]
                agg.evals += 1; agg.transitions += 1; agg.states += 1; agg.nontrivial += 1; agg.compared += 1
                case = {"object": "vector of vectors (ragged stack)", "elements": total, "element_of_another_length_at": odd, "set_repr_rows": setting}
                serif.set_repr_rows(setting)
                try:
                    with _w.catch_warnings():
                        _w.simplefilter("ignore")
                        v = Vector([Vector([1000 + i, 5000 + i] + ([7] if i == odd else [])) for i in range(total)])
                        if type(v).__name__ == "Table":
                            agg.skipped["stack-became-a-table"] += 1
                            continue
                        text = repr(v)
                except Exception as e:
                    agg.violation(V("repr.nested", "raises-" + type(e).__name__, case, None, repr(e)[:80]))
                    continue
                finally:
                    serif.set_repr_rows(None)
                shown = [i for i in range(total) if str(1000 + i) in text]
                want = [i for i in shown_indices(total, half) if i != "..."]
                ell = [ln for ln in text.split("\n") if ln.strip() == "..."]
                if n % 2 == 1 and 2 * half < total <= n:
                    agg.skipped["odd-limit-boundary-length"] += 1
                elif shown != want or any(str(5000 + i) not in text for i in want if i != odd):
                    agg.violation(V("repr.nested", "not-exactly-the-first-and-last-elements", case, want, shown))
                elif len(ell) != 1 + (1 if (odd in want and 3 > 2 * half) else 0):      # the 3-element cell is itself shortened under a limit of 2
                    agg.violation(V("repr.nested", "ellipsis-misplaced", case, 1, len(ell)))
                elif not text.rstrip().split("\n")[-1].startswith(f"# {total} element vector"):
                    agg.violation(V("repr.nested", "footer-count-wrong", case, total, text.rstrip().split("\n")[-1]))
                else:
                    agg.outcomes["vector-truncated-ok"] += 1


def vector_histories(agg, setting):
    """repr, edit in place (also with a value whose hash equals the old one's, so the fingerprint does not move), repr again"""
    import serif
    from serif import Vector, Table
    n, half = limit_of(setting)
    cases = [([-1, 5, 7], 0, -2), ([0.0, 1.5, 2.5], 0, -0.0), ([1, 2, 3], 1, 2.0), ([1, 2, 3], 1, True), (["a", "b", "c"], 2, "z"),
             ([1, 2, 3], 0, None), ([5, 6, 7], 2, 8), ([-2, 5], 0, -1)]
    for vals, idx, new in cases:
        for how in ("vector", "column-view", "table-cell"):
            agg.evals += 1; agg.transitions += 3; agg.states += 1; agg.nontrivial += 1
            case = {"values": vals, "write": [idx, new], "through": how, "set_repr_rows": setting,
                    "history": ["repr", "in-place write", "repr again"]}
            serif.set_repr_rows(setting)
            try:
                if how == "vector":
                    v = Vector(list(vals)); holder = v
                else:
                    holder = Table([Vector(list(vals), name="a"), Vector(list(range(len(vals))), name="b")])
                    v = holder["a"]
                repr(holder); repr(v)
                if how == "table-cell":
                    holder[idx, "a"] = new
                else:
                    v[idx] = new
                v = holder["a"] if how != "vector" else v
                text = repr(v)
                ttext = repr(holder)
            except Exception as e:
                agg.violation(V("repr.after-write", "raises-" + type(e).__name__, case, None, repr(e)[:80]))
                continue
            finally:
                serif.set_repr_rows(None)
            cur = list(vals); cur[idx] = new
            if not same_vals(list(v._underlying), cur):
                continue
            before_v = len(agg.viol)
            judge_vector_text(agg, text, v, cur, v._name, n, half, case, site="repr.after-write")
            if how != "vector" and len(cur) <= 2 * half and token(cur[idx]) not in ttext:
                agg.violation(V("repr.after-write", "table-repr-shows-stale-cell", case, token(cur[idx]), ttext[:200]))


def same_vals(a, b):
    from mc.models import same_list
    return same_list(a, b)


def check_table(agg, coldefs, nrows, setting, per_table=None):
    """coldefs: [(name, kind, nullable)]"""
    import serif
    from serif import Vector, Table
    n, half = limit_of(per_table if per_table is not None else setting)
    if not coldefs:
        nrows = 0          # a table without columns has no rows
    case = {"columns": [list(c) for c in coldefs] if len(coldefs) <= 4 else [list(c) for c in coldefs[:2]] + ["..."] + [list(coldefs[-1])],
            "width": len(coldefs), "rows": nrows, "set_repr_rows": setting, "table_repr_rows": per_table}
    serif.set_repr_rows(setting)
    agg.evals += 1; agg.transitions += 1; agg.states += 1
    try:
        cols = []
        for ci, (nm, kind, nullable) in enumerate(coldefs):
            vals = [GEN[kind](i + 7 * ci) for i in range(nrows)]
            if nullable and nrows:
                vals[0] = None
            cols.append(Vector(vals, name=nm) if nrows else Vector([], name=nm, dtype={"int": int, "str": str, "float": float, "bool": bool, "date": date}.get(kind)))
        t = Table(cols) if cols else Table()
        if cols and nrows:
            VARIANT[0] += 1
            from mc import provenance
            route, t = provenance.table_variant([(c_._name, list(c_._underlying)) for c_ in cols], VARIANT[0])
            case["route"] = route
        if per_table is not None:
            t._repr_rows = per_table
        before = obs(t)
        text = repr(t)
    except Exception as e:
        agg.violation(V("repr.table", "raises-" + type(e).__name__, case, "a string", repr(e)[:80]))
        return
    finally:
        serif.set_repr_rows(None)
    agg.compared += 1
    if obs(t) != before:
        agg.violation(V("repr.table", "object-changed-by-repr", case))
        return
    lines = text.split("\n")
    W = len(coldefs)
    m = re.fullmatch(r"# (\d+)×(\d+) table(?: <(.*)>)?", lines[-1])
    if not m:
        agg.violation(V("repr.table", "footer-not-parseable", case, "# RxC table <...>", lines[-1]))
        return
    if int(m.group(1)) != nrows or int(m.group(2)) != W:
        agg.violation(V("repr.table", "footer-shape-wrong", case, [nrows, W], [int(m.group(1)), int(m.group(2))]))
        return
    if W == 0:
        agg.outcomes["table-ok"] += 1
        return
    true_dt = [dtype_token(c) for c in t._underlying]
    trunc = W > 10
    disp = list(range(5)) + list(range(W - 5, W)) if trunc else list(range(W))
    foot = m.group(3)
    body_all = lines[:-2]
    if foot is None:
        agg.violation(V("repr.table", "footer-without-dtype", case))
        return
    if foot == "mixed":
        trow = [ln for ln in body_all if re.search(r"\[[\w?]+\]", ln)]
        if not trow:
            agg.violation(V("repr.table", "mixed-footer-without-type-row", case))
            return
        toks = re.findall(r"\[([\w?]+)\]", trow[0])
        if toks != [true_dt[i] for i in disp]:
            agg.violation(V("repr.table", "header-dtype-row-wrong", case, [true_dt[i] for i in disp], toks))
            return
    elif "," in foot:
        toks = [x.strip() for x in foot.split(",")]
        if "..." in toks:
            k = toks.index("...")
            if toks[:k] != true_dt[:k] or toks[k + 1:] != true_dt[len(true_dt) - (len(toks) - k - 1):]:
                agg.violation(V("repr.table", "footer-dtype-list-wrong", case, true_dt, toks))
                return
        elif toks != true_dt:
            agg.violation(V("repr.table", "footer-dtype-list-wrong", case, true_dt, toks))
            return
    else:
        if any(d != foot for d in true_dt):
            agg.violation(V("repr.table", "footer-claims-single-dtype-but-columns-differ", case, true_dt, foot))
            return
    if n % 2 == 1 and 2 * half < nrows <= n:
        agg.skipped["odd-limit-boundary-length"] += 1
        return
    want = shown_indices(nrows, half)
    if lines[-2] != "":
        agg.violation(V("repr.table", "no-blank-line-before-footer", case))
        return
    if len(body_all) < len(want):
        agg.violation(V("repr.table", "body-row-count-wrong", case, len(want), len(body_all)))
        return
    if half == 0 and nrows > 0 and body_all and set(body_all[-1].split()) != {"..."} and any(set(x.split()) == {"..."} for x in body_all):
        agg.violation(V("repr.table", "zero-limit-prints-ellipsis-then-everything", case, 1, len(body_all)))
        return
    body = body_all[len(body_all) - len(want):] if want else []
    header = body_all[:len(body_all) - len(want)]
    if len(header) > 3 or (len(header) == 0):
        sym = "body-row-count-wrong"
        if half == 0 and len(body_all) >= nrows + 1:
            sym = "zero-limit-prints-ellipsis-then-everything"
        agg.violation(V("repr.table", sym, case, {"body_rows": len(want), "header_rows": "1..3"}, len(body_all)))
        return
    for idx, line in zip(want, body):
        if idx == "...":
            if set(line.split()) != {"..."}:
                agg.violation(V("repr.table", "ellipsis-misplaced", case, "...", line))
                return
            continue
        pos = 0
        for ci in disp:
            nm, kind, nullable = coldefs[ci]
            val = None if (nullable and idx == 0) else GEN[kind](idx + 7 * ci)
            tk = token(val) if not (kind == "object" and isinstance(val, str)) else repr(val)
            f = line.find(tk, pos)
            if f < 0:
                agg.violation(V("repr.table", "row-shows-wrong-value", dict(case, row=idx, column=ci), tk, line))
                return
            pos = f + len(tk)
    # headers show the stored names
    h0 = header[0]
    pos = 0
    for ci in disp:
        nm = coldefs[ci][0]
        if not nm:
            continue
        shown = repr(nm) if needs_quote(nm) else nm
        f = h0.find(shown, pos)
        if f < 0:
            if all(not coldefs[c][0] for c in disp):
                break
            agg.violation(V("repr.table", "header-does-not-show-stored-name", dict(case, column=ci), shown, h0))
            return
        pos = f + len(shown)
    if nrows > 2 * half or trunc:
        agg.nontrivial += 1
        agg.outcomes["table-truncated-ok"] += 1
    else:
        agg.outcomes["table-ok"] += 1


def unit_disturb(unit):
    """repr is a function of the object and of the set_repr_rows setting only: every sequence of one or two 'disturbing' calls
    (repr / peek of tables with their own row override, of zero-column, zero-row and wide tables, of rows and empty vectors,
    a set_repr_rows(k) that is taken back) must leave the repr of unrelated probe objects exactly as it was"""
    import serif
    from serif import Vector, Table
    agg = Agg()
    serif.set_repr_rows(None)

    def probes():
        return [Vector(list(range(30)), name="p"), Table({"a": list(range(30)), "b": [str(i) for i in range(30)]}), Vector([1, 2, 3, 4, 5]),
                Table({"a": [1, 2, 3]}), Vector([float(i) for i in range(13)]),
                Table({f"c{i}": [i, i + 1] for i in range(12)}), Table({f"c{i}": [str(i)] for i in range(11)})]      # wider than the column limit

    def with_override(t, k):
        t._repr_rows = k
        return t
    wide = {f"c{i}": [i, i + 1] for i in range(12)}
    disturbers = [
        ("repr(Table().peek())", lambda: repr(Table().peek())),
        ("repr(zero-column table with override 4)", lambda: repr(with_override(Table(), 4))),
        ("repr(zero-column table with override 200)", lambda: repr(with_override(Table(), 200))),
        ("repr(table.peek())", lambda: repr(Table({"a": list(range(40))}).peek())),
        ("repr(zero-row table with override 2)", lambda: repr(with_override(Table({"a": []}), 2))),
        ("repr(long table with override 2)", lambda: repr(with_override(Table({"a": list(range(40))}), 2))),
        ("repr(long table with override 0)", lambda: repr(with_override(Table({"a": list(range(40))}), 0))),
        ("repr(wide table with override 200)", lambda: repr(with_override(Table(wide), 200))),
        ("repr(wide table)", lambda: repr(Table(wide))),
        ("repr(row)", lambda: repr(Table({"a": [1, 2], "b": [3, 4]})[0])),
        ("repr(empty vector)", lambda: repr(Vector([]))),
        ("repr(vector of None)", lambda: repr(Vector([None, None]))),
        ("set_repr_rows(3) taken back", lambda: (serif.set_repr_rows(3), repr(Vector(list(range(9)))), serif.set_repr_rows(None))),
        ("set_repr_rows(0) taken back", lambda: (serif.set_repr_rows(0), repr(Table({"a": [1, 2, 3]})), serif.set_repr_rows(None))),
        ("str(table with override 1)", lambda: str(with_override(Table({"a": list(range(40))}), 1))),
        ("repr raising inside a cell", lambda: repr(Vector([_BadRepr(), 1]))),
    ]
    base = [repr(p) for p in probes()]
    seqs = [(d,) for d in disturbers] + [(a, b) for a in disturbers for b in disturbers if a is not b]
    for seq in seqs:
        agg.evals += 1; agg.transitions += len(seq) + 7; agg.states += 1; agg.nontrivial += 1; agg.compared += 7
        labels = [d[0] for d in seq]
        for _, th in seq:
            try:
                th()
            except Exception:
                pass
        got = []
        for p_ in probes():
            try:
                got.append(repr(p_))
            except Exception as e:
                got.append("raises-" + type(e).__name__)
        bad = [i for i, (g, b) in enumerate(zip(got, base)) if g != b]
        if bad:
            i = bad[0]
            agg.violation(V("repr.after-other-reprs", "repr-of-an-unrelated-object-changed", {"calls_before": labels, "probe": i},
                            base[i][-160:], got[i][-160:]))
            serif.set_repr_rows(None)
        else:
            agg.outcomes["undisturbed"] += 1
    serif.set_repr_rows(None)
    agg.sample({"disturbers": [d[0] for d in disturbers]})
    return agg


class _BadRepr:
    def __repr__(self):
        raise RuntimeError("repr of a cell fails")


def run_unit(unit):
    agg = Agg()
    what = unit[0]
    if what == "disturb":
        return unit_disturb(unit)
    if what == "vec":
        _, kind, setting = unit
        n, half = limit_of(setting)
        L = 2 * half
        lengths = sorted({0, 1, 2, max(L - 1, 0), L, L + 1, 2 * L + 1, n, n + 1})
        for length in lengths:
            base = [GEN[kind](i) for i in range(length)]
            variants = [("none", base)]
            if length:
                variants += [("first", [None] + base[1:]), ("last", base[:-1] + [None]), ("all", [None] * length)]
            for lab, vals in variants:
                for name in (NAMESV if length in (1, L + 1) else [None, "nm"]):
                    check_vector(agg, vals, name, setting)
            if kind == "float" and length:
                for sp in SPECIAL_FLOATS:
                    for posn in sorted({0, length - 1, length // 2}):
                        vals = list(base)
                        vals[posn] = sp
                        check_vector(agg, vals, None, setting)
        if kind == "int":
            vector_histories(agg, setting)
            untyped_and_nested(agg, setting)
        agg.sample({"vector": kind, "set_repr_rows": setting, "lengths": lengths})
    else:
        _, width, setting = unit
        n, half = limit_of(setting)
        L = 2 * half
        rowsets = sorted({0, 1, L, L + 1})
        layouts = []
        base_names = [f"c{i}" for i in range(width)]
        layouts.append([(base_names[i], "int", False) for i in range(width)])
        layouts.append([(base_names[i], ["int", "str", "float", "date", "bool"][i % 5], False) for i in range(width)])
        layouts.append([(None if i % 2 else base_names[i], "str", False) for i in range(width)])
        layouts.append([("dup", "int", i == 0) for i in range(width)])
        layouts.append([(["x y", "sum", "1a", "", "Nm"][i % 5], "int", False) for i in range(width)])
        layouts.append([([7, (1, 2), 2.5, "k", -1][i % 5], "int", False) for i in range(width)])      # names that are not strings
        # long names (a survey question as column name): 40 / 49 / 80 / 200 characters, two of them alike in their first 47
        longs = ["q" * 40, "how_satisfied_are_you_with_the_delivery_of_order_" + "a", "how_satisfied_are_you_with_the_delivery_of_order_" + "b", "n" * 80, "z" * 200]
        layouts.append([(longs[i % 5] + (str(i) if i >= 5 else ""), "int", False) for i in range(width)])
        for odd in range(width):
            for okind, onull in (("str", False), ("int", True), ("float", False)):
                lay = [(base_names[i], "int", False) for i in range(width)]
                lay[odd] = (base_names[odd], okind, onull)
                layouts.append(lay)
        for lay in layouts:
            for nrows in rowsets:
                check_table(agg, lay, nrows, setting)
        if setting is None:
            for pt in (0, 1, 2, 4, 200):
                for nrows in (0, 1, 3, 5) + ((14, 30, 120, 201) if pt == 200 else ()):
                    check_table(agg, layouts[1] if width else [], nrows, None, per_table=pt)
        agg.sample({"table-width": width, "set_repr_rows": setting, "rows": rowsets, "layouts": len(layouts)})
    return agg


def check(ctx):
    settings = SETTINGS if not ctx.thorough else [None] + list(range(0, 16)) + [25, 40]
    widths = (0, 1, 2, 9, 10, 11, 12) if not ctx.thorough else tuple(range(0, 15))
    units = [("vec", k, s) for k in GEN for s in settings]
    units += [("tab", w, s) for w in widths for s in settings]
    units += [("disturb",)]
    agg = core.merge_all(core.pmap(run_unit, units))
    agg.notes["bound"] = "see RULE"
    agg.notes["exhaustive"] = True
    return agg


def coverage_goals(ctx, agg):
    return [k for k in ("vector-ok", "vector-truncated-ok", "table-ok", "table-truncated-ok") if agg.outcomes.get(k, 0) < 50]


def replay(rec):
    return None
