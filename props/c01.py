"""C01 — value semantics: writes stay local, read-only operations are pure (Engine H, fresh-only allocator)."""
from __future__ import annotations

from mc import core, explorer
from mc.core import Agg, V
from mc.explorer import Slot, World, Outcome
from mc.models import obs, is_table

RULE = ("H: breadth-first exploration of operation histories from 4 seed worlds (a vector and a table; two vectors over one caller tuple; "
        "a table and the vectors it was built from; a table with two derived tables), pool of <=5 live objects, ~60 event kinds "
        "(constructors, derivations copy/slice/mask/select/column views/stack/transpose/sort/join/arithmetic, every in-place write form on "
        "vectors, column views and tables incl. attribute assignment of a donor vector, renames, failing writes, read-only bundles); "
        "states deduplicated by a canonical heap hash. Oracle: after every event every object outside the event's target set (closed under "
        "the SHADOW sharing relation, never under real identity) observes exactly its previous contents, names and dtypes; events that raise "
        "change nothing. "
        "E (mc/purity.py): operand kinds (13) x provenance forms (vector, live column view, donor of a table, dtype made nullable by an earlier "
        "write, table, row) x every operator with every scalar / list / vector / table second operand in both orders, every public "
        "no-argument method and property found at run time, indexing forms, joins, aggregate, window, sort, stacking: (purity) every "
        "scenario object observes type-exactly the same before and after, whether the operation returns or raises; (deferred) the result "
        "is NOT looked at, the operands are then written in place by every write form, and only then the result is observed - it must "
        "equal the same derivation on an independently built scenario; (backwrite) a write into the result changes no operand. "
        "non-trivial = transition that is a successful in-place write or a refused write")
ASSUMPTIONS = ["fresh-only virtual allocator: storage identities are never recycled inside this check (C15 owns that hazard)",
               "AliasError refusals are accepted here if they change nothing; whether they are justified is C15's subject",
               "element values are small ints/floats; written values are old+1 so every write is observable"]


class Disabled(Exception):
    pass


P_SLOTS = 5


class Driver:
    Disabled = Disabled

    def __init__(self, seed_ids=(0, 1, 2, 3), pool=P_SLOTS):
        self.seed_ids = tuple(seed_ids)
        self.pool = pool

    # ------------------------------------------------------------------ worlds
    def new_world(self):
        from mc import valloc
        w = World()
        w.alloc = valloc.CURRENT
        return w

    def after_event(self, world):
        pass

    def seeds(self):
        S = [
            [("V_list",), ("T_dict",)],
            [("tuple",), ("V_tup", 0), ("V_tup", 0)],
            [("V_list",), ("V_list",), ("T_vecs", 0, 1)],
            [("T_dict",), ("rshift_tdict_list", 0), ("slice01", 0)],
        ]
        return [S[i] for i in self.seed_ids]

    # ------------------------------------------------------------------ observation / canon
    def snapshot(self, world):
        out = []
        for s in world.slots:
            if s.kind == "tup":
                out.append(("tup", tuple(s.obj)))
            else:
                out.append(obs(s.obj))
        return out

    def canon(self, world):
        return explorer.canon_world(world, "current")

    # ------------------------------------------------------------------ enabled events
    def events(self, world):
        ev = []
        sl = world.slots
        n = len(sl)
        room = n < self.pool
        vecs = [i for i, s in enumerate(sl) if s.kind in ("vec", "col")]
        tabs = [i for i, s in enumerate(sl) if s.kind == "tab"]
        tups = [i for i, s in enumerate(sl) if s.kind == "tup"]
        if room:
            ev.append(("V_list",))
            ev.append(("T_dict",))
            if not tups:
                ev.append(("tuple",))
            for i in tups:
                ev.append(("V_tup", i))
            for i in vecs:
                ev.append(("V_storage_of", i))          # Vector(v.cols()): a new vector over v's own storage tuple (public API)
            for t in tabs:
                for c in range(min(len(sl[t].obj._underlying), 3)):
                    ev.append(("V_storage_of_col", t, c))
            for i in vecs:
                for j in vecs:
                    if len(sl[i].obj) == len(sl[j].obj) and len(sl[i].obj) > 0:
                        ev.append(("T_vecs", i, j))
                        if i != j:
                            ev.append(("rshift_vv", i, j))
            for i in vecs + tabs:
                for op in ("copy", "slice01", "sliceall", "mask", "idxvec", "T", "add1", "sort"):
                    ev.append((op, i))
            for i in vecs:
                for op in ("fillna", "dropna", "cast", "to_object", "unique", "lshift_empty", "lshift_list", "rlshift_empty", "neg"):
                    ev.append((op, i))
            for t in tabs:
                ncol = len(sl[t].obj._underlying)
                for c in range(min(ncol, 2)):
                    ev.append(("getcol_item", t, c))
                    ev.append(("getcol_attr", t, c))
                ev.append(("getcol_cols", t, 0))
                ev.append(("select", t))
                ev.append(("col2d_name", t))
                ev.append(("col2d_index", t))
                ev.append(("lshift_row", t))
                ev.append(("rshift_tdict_list", t))
                for v in vecs:
                    if len(sl[v].obj) == len(sl[t].obj):
                        ev.append(("rshift_tv", t, v))
                        ev.append(("rshift_tdict_vec", t, v))
                for t2 in tabs:
                    if len(sl[t2].obj) == len(sl[t].obj):
                        ev.append(("rshift_tt", t, t2))
                    ev.append(("ijoin", t, t2))
                    ev.append(("ljoin", t, t2))
                    ev.append(("fjoin", t, t2))
        # in-place writes
        for i in vecs:
            for op in ("w_int", "w_slice", "w_mask", "w_idx", "w_idxvec", "w_promote", "w_none", "w_name",
                       "w_badidx", "w_badlen", "w_badtype"):
                ev.append((op, i))
        for t in tabs:
            for op in ("tw_cell", "tw_row", "tw_col", "tw_colscalar", "tw_tailcols", "tw_tailscalar", "t_setattr_list", "t_rename", "t_renames",
                       "t_setattr_badlen", "tw_badrow", "tw_badcol", "t_rename_bad"):
                ev.append((op, t))
            for v in vecs:
                if len(sl[v].obj) == len(sl[t].obj):
                    ev.append(("t_setattr_vec", t, v))
                    ev.append(("t_setattr_idx", t, v))
            for t2 in tabs:
                if t2 != t:
                    ev.append(("tw_region", t, t2))
        # read-only bundles
        for i in vecs + tabs:
            ev.append(("read", i))
        return ev

    # ------------------------------------------------------------------ apply
    def apply(self, world, ev):
        from serif import Vector, Table
        sl = world.slots
        op = ev[0]

        def tok():
            return ("k", world.fresh())

        def add_vec(v, token=None):
            sl.append(Slot("vec", v, token or tok()))
            return Outcome(new=len(sl) - 1, readonly=True)

        def add_tab(t):
            sl.append(Slot("tab", t, tok(), [tok() for _ in t._underlying]))
            return Outcome(new=len(sl) - 1, readonly=True)

        def add_any(r):
            if is_table(r):
                return add_tab(r)
            if isinstance(r, Vector):
                return add_vec(r)
            raise Disabled()

        def val():
            return 100 + world.fresh()

        def sharers(token):
            """slots showing the vector with this shadow token: the same vector, and tables holding it as a column"""
            out = set()
            for i, s in enumerate(sl):
                if s.kind in ("vec", "col") and s.token == token:
                    out.add(i)
                if s.kind == "tab" and token in s.coltokens:
                    out.add(i)
            return out

        def table_targets(t, cols=None):
            out = {t}
            toks = sl[t].coltokens if cols is None else [sl[t].coltokens[c] for c in cols if c < len(sl[t].coltokens)]
            for i, s in enumerate(sl):
                if s.kind in ("vec", "col") and s.token in toks:
                    out.add(i)
            return out

        def guarded(targets, thunk, new=None):
            try:
                thunk()
            except Exception as e:
                return Outcome(targets=(), raised=e)
            return Outcome(targets=targets, new=new)

        try:
            # ---------------- constructors
            if op == "V_list":
                k = world.fresh()
                return add_vec(Vector([k, k + 1], name=f"n{k}"))
            if op == "tuple":
                k = world.fresh()
                sl.append(Slot("tup", (k, k + 1), tok()))
                return Outcome(new=len(sl) - 1, readonly=True)
            if op == "V_tup":
                t = sl[ev[1]]
                if t.kind != "tup":
                    raise Disabled()
                return add_vec(Vector(t.obj))        # shares the caller's tuple; still its own vector
            if op == "V_storage_of":
                src = sl[ev[1]].obj
                st = src.cols()
                if type(st) is not tuple or st is not src._underlying:
                    raise Disabled()
                return add_vec(Vector(st))           # shares storage with the source; still its own vector
            if op == "V_storage_of_col":
                col = sl[ev[1]].obj._underlying[ev[2]]
                st = col.cols()
                if type(st) is not tuple or st is not col._underlying:
                    raise Disabled()
                return add_vec(Vector(st))
            if op == "T_dict":
                k = world.fresh()
                return add_tab(Table({"a": [k, k + 1], "b": [k + 2, k + 3]}))
            if op == "T_vecs":
                return add_any(Table([sl[ev[1]].obj, sl[ev[2]].obj]))
            if op == "rshift_vv":
                return add_any(sl[ev[1]].obj >> sl[ev[2]].obj)
            # ---------------- derivations
            if op in ("copy", "slice01", "sliceall", "mask", "idxvec", "T", "add1", "sort"):
                x = sl[ev[1]].obj
                n = len(x)
                if op == "copy":
                    r = x.copy()
                elif op == "slice01":
                    r = x[0:1]
                elif op == "sliceall":
                    r = x[:]
                elif op == "mask":
                    if n == 0:
                        raise Disabled()
                    r = x[[True] + [False] * (n - 1)]
                elif op == "idxvec":
                    if n == 0:
                        raise Disabled()
                    r = x[Vector([n - 1, 0])]
                elif op == "T":
                    r = x.T
                elif op == "add1":
                    r = x + 1
                else:
                    r = x.sort_by(x._underlying[0]) if is_table(x) else x.sort_by()
                if r is None:
                    raise Disabled()
                return add_any(r)
            if op in ("fillna", "dropna", "cast", "to_object", "unique", "lshift_empty", "lshift_list", "rlshift_empty", "neg"):
                x = sl[ev[1]].obj
                if op == "fillna":
                    r = x.fillna(0)
                elif op == "dropna":
                    r = x.dropna()
                elif op == "cast":
                    r = x.cast(float)
                elif op == "to_object":
                    r = x.to_object()
                elif op == "unique":
                    r = x.unique()
                elif op == "lshift_empty":
                    r = x << []
                elif op == "lshift_list":
                    r = x << [val()]
                elif op == "rlshift_empty":
                    r = [] << x
                else:
                    r = -x
                return add_any(r)
            if op in ("getcol_item", "getcol_attr", "getcol_cols"):
                t = sl[ev[1]]
                c = ev[2]
                if c >= len(t.obj._underlying):
                    raise Disabled()
                if op == "getcol_item":
                    nm = t.obj.column_names()[c]
                    if not isinstance(nm, str) or t.obj.column_names().index(nm) != c:
                        raise Disabled()
                    col = t.obj[nm]
                elif op == "getcol_attr":
                    accs = sorted(set(dir(t.obj)) - set(object.__dir__(t.obj)))
                    col = None
                    for a in accs:
                        try:
                            cand = getattr(t.obj, a)
                        except Exception:
                            continue
                        if cand is t.obj._underlying[c]:
                            col = cand
                            break
                    if col is None:
                        raise Disabled()
                else:
                    col = t.obj.cols(c)
                sl.append(Slot("col", col, t.coltokens[c]))
                return Outcome(new=len(sl) - 1, readonly=True)
            if op in ("col2d_name", "col2d_index"):
                # t[rows, one column] is a selection (a new vector), also when the row slice covers the whole table
                t = sl[ev[1]].obj
                names = t.column_names()
                if not names or len(t) == 0:
                    raise Disabled()
                if op == "col2d_name":
                    if not isinstance(names[-1], str) or names.index(names[-1]) != len(names) - 1:
                        raise Disabled()
                    r = t[:, names[-1]]
                else:
                    r = t[0:len(t), 0]
                return add_any(r)
            if op == "select":
                t = sl[ev[1]].obj
                names = [n for n in t.column_names() if isinstance(n, str)]
                if len(names) < 1:
                    raise Disabled()
                key = tuple(names[:2]) if len(names) >= 2 else (names[0],)
                return add_any(t[key])
            if op == "lshift_row":
                t = sl[ev[1]].obj
                return add_any(t << [val() for _ in t._underlying])
            if op == "rshift_tdict_list":
                t = sl[ev[1]].obj
                return add_any(t >> {"c": [val() for _ in range(len(t))]})
            if op == "rshift_tv":
                return add_any(sl[ev[1]].obj >> sl[ev[2]].obj)
            if op == "rshift_tdict_vec":
                return add_any(sl[ev[1]].obj >> {"c": sl[ev[2]].obj})
            if op == "rshift_tt":
                return add_any(sl[ev[1]].obj >> sl[ev[2]].obj)
            if op in ("ijoin", "ljoin", "fjoin"):
                a, b = sl[ev[1]].obj, sl[ev[2]].obj
                meth = {"ijoin": "inner_join", "ljoin": "join", "fjoin": "full_join"}[op]
                r = getattr(a, meth)(b, left_on=a._underlying[0], right_on=b._underlying[0], expect="many_to_many")
                return add_any(r)
            # ---------------- vector writes (through any vector-like handle, incl. column views)
            if op.startswith("w_"):
                s = sl[ev[1]]
                x = s.obj
                n = len(x)
                tg = sharers(s.token)
                old = x._underlying[0] if n else 0
                new = (old + 1) if isinstance(old, (int, float)) and not isinstance(old, bool) else val()
                if op == "w_int":
                    return guarded(tg, lambda: x.__setitem__(0, new))
                if op == "w_slice":
                    return guarded(tg, lambda: x.__setitem__(slice(0, 2), [new] * min(n, 2)))
                if op == "w_mask":
                    return guarded(tg, lambda: x.__setitem__([True] + [False] * (n - 1), new))
                if op == "w_idx":
                    return guarded(tg, lambda: x.__setitem__([n - 1, 0], [new, new]))
                if op == "w_idxvec":
                    return guarded(tg, lambda: x.__setitem__(Vector([0]), new))
                if op == "w_promote":
                    return guarded(tg, lambda: x.__setitem__(n - 1, new + 0.5))
                if op == "w_none":
                    return guarded(tg, lambda: x.__setitem__(0, None))
                if op == "w_name":
                    def ren():
                        x.name = f"r{world.fresh()}"
                    return guarded(tg, ren)
                if op == "w_badidx":
                    return guarded(tg, lambda: x.__setitem__(n + 3, new))
                if op == "w_badlen":
                    return guarded(tg, lambda: x.__setitem__(slice(0, 2), [new] * (min(n, 2) + 1)))
                if op == "w_badtype":
                    return guarded(tg, lambda: x.__setitem__(0, "s"))
            # ---------------- table writes
            if op in ("tw_cell", "tw_row", "tw_col", "tw_colscalar", "tw_badrow", "tw_badcol", "tw_tailcols", "tw_tailscalar"):
                t = ev[1]
                T = sl[t].obj
                if len(T) == 0 or not T._underlying:
                    raise Disabled()
                ncol = len(T._underlying)
                if op == "tw_cell":
                    return guarded(table_targets(t, [0]), lambda: T.__setitem__((0, 0), val()))
                if op == "tw_row":
                    return guarded(table_targets(t), lambda: T.__setitem__(len(T) - 1, [val() for _ in range(ncol)]))
                if op in ("tw_tailcols", "tw_tailscalar"):
                    # several target columns that are NOT the leading ones (a row / a scalar over every column but the first)
                    if ncol < 3:
                        raise Disabled()
                    tail = list(range(1, ncol))
                    if op == "tw_tailcols":
                        return guarded(table_targets(t, tail), lambda: T.__setitem__((0, tail), [val() for _ in tail]))
                    return guarded(table_targets(t, tail), lambda: T.__setitem__((slice(None), tail), val()))
                if op == "tw_col":
                    return guarded(table_targets(t, [ncol - 1]), lambda: T.__setitem__((slice(None), ncol - 1), [val() for _ in range(len(T))]))
                if op == "tw_colscalar":
                    return guarded(table_targets(t, [0]), lambda: T.__setitem__((slice(None), 0), val()))
                if op == "tw_badrow":
                    return guarded(table_targets(t), lambda: T.__setitem__(0, [val() for _ in range(ncol + 1)]))
                if op == "tw_badcol":
                    return guarded(table_targets(t), lambda: T.__setitem__((0, "no_such_column"), val()))
            if op == "tw_region":
                t, t2 = ev[1], ev[2]
                T, S = sl[t].obj, sl[t2].obj
                k = min(len(T._underlying), len(S._underlying), 2)
                if k == 0 or len(T) == 0 or len(S) != len(T):
                    raise Disabled()
                src = S[tuple(n for n in S.column_names()[:k])] if all(isinstance(n, str) for n in S.column_names()[:k]) else None
                if src is None or len(src._underlying) != k:
                    raise Disabled()
                return guarded(table_targets(t, list(range(k))), lambda: T.__setitem__((slice(0, len(T)), slice(0, k)), src))
            if op in ("t_setattr_vec", "t_setattr_idx", "t_setattr_list", "t_setattr_badlen"):
                t = ev[1]
                T = sl[t].obj
                accs = []
                for a in sorted(set(dir(T)) - set(object.__dir__(T))):
                    try:
                        if getattr(T, a) is T._underlying[0]:
                            accs.append(a)
                    except Exception:
                        pass
                if not accs:
                    raise Disabled()
                acc = accs[0]
                if op == "t_setattr_idx":
                    acc = acc if "__" in acc else acc + "__0"
                if op in ("t_setattr_vec", "t_setattr_idx"):
                    donor = sl[ev[2]]
                    if donor.kind == "col" and donor.token in sl[t].coltokens:
                        raise Disabled()       # assigning a table its own column back: not a donor scenario
                    value = donor.obj
                elif op == "t_setattr_list":
                    value = [val() for _ in range(len(T))]
                else:
                    value = [val() for _ in range(len(T) + 1)]
                targets = table_targets(t, [0])       # the table and the views of the REPLACED column change...
                old_views = {i for i in targets if i != t}
                def do():
                    setattr(T, acc, value)
                out = guarded({t}, do)
                if out.raised is None:
                    # the replaced column is detached: its former views keep showing the old column unchanged;
                    # the table now holds a copy of the donor -> fresh shadow token, NO link to the donor
                    sl[t].coltokens[0] = tok()
                return out
            if op in ("t_rename", "t_renames", "t_rename_bad"):
                t = ev[1]
                T = sl[t].obj
                names = T.column_names()
                if not names or not isinstance(names[0], str):
                    raise Disabled()
                newn = f"z{world.fresh()}"
                if op == "t_rename":
                    return guarded(table_targets(t, [0]), lambda: T.rename_column(names[0], newn))
                if op == "t_renames":
                    last = names[-1] if isinstance(names[-1], str) else names[0]
                    return guarded(table_targets(t), lambda: T.rename_columns([names[0], last] if last != names[0] else [names[0]],
                                                                              [newn, newn + "b"] if last != names[0] else [newn]))
                return guarded(table_targets(t), lambda: T.rename_columns([names[0], "no_such"], [newn, "q"]))
            # ---------------- read-only bundle: results discarded, nothing may change
            if op == "read":
                x = sl[ev[1]].obj
                def ops():
                    yield lambda: repr(x)
                    yield lambda: x.fingerprint()
                    yield lambda: list(iter(x))
                    yield lambda: x + 1
                    yield lambda: x == x.copy()
                    yield lambda: x.copy()
                    if is_table(x):
                        yield lambda: dir(x)
                        if len(x._underlying) and len(x):
                            k0 = x._underlying[0]
                            yield lambda: x.aggregate(over=k0, sum_over=x._underlying[-1], count_over=k0)
                            yield lambda: x.window(over=k0, max_over=x._underlying[-1])
                            yield lambda: x.sort_by(k0, reverse=True)
                            yield lambda: x.inner_join(x, left_on=k0, right_on=k0, expect="many_to_many")
                            yield lambda: x.join(x, left_on=k0, right_on=k0, expect="many_to_many")
                            yield lambda: x.full_join(x, left_on=k0, right_on=k0, expect="many_to_many")
                            yield lambda: x[0:1]
                            yield lambda: [tuple(r) for r in x]
                            yield lambda: x * 2
                    else:
                        yield lambda: x > 1
                        yield lambda: x == x
                        yield lambda: -x
                        yield lambda: x.sort_by(reverse=True)
                        yield lambda: x[0:1]
                        yield lambda: x.isna()
                        yield lambda: x.fillna(0)
                        if len(x):
                            yield lambda: x[[True] + [False] * (len(x) - 1)]
                            yield lambda: x.sum()
                            yield lambda: x.max()
                for th in ops():
                    try:
                        th()        # results discarded; an op that raises must not change anything either
                    except Exception:
                        pass
                return Outcome(targets=(), readonly=True)
        except Disabled:
            raise
        except Exception as e:
            # constructors / derivations that raise: nothing may have changed
            return Outcome(targets=(), raised=e, readonly=True)
        raise Disabled()

    # ------------------------------------------------------------------ monitor
    def check(self, world, pre, ev, out, agg, hist):
        post = self.snapshot(world)
        n_pre = len(pre)
        kind = "raised" if out.raised is not None else ("readonly" if out.readonly else "write")
        if out.raised is not None:
            agg.outcomes["refused:" + type(out.raised).__name__] += 1
        elif out.readonly:
            agg.outcomes["pure-op"] += 1
        else:
            agg.outcomes["write-ok"] += 1
        if kind != "readonly":
            agg.nontrivial += 1
        for i in range(n_pre):
            if i in out.targets:
                continue
            if post[i] != pre[i]:
                tgt_kind = world.slots[i].kind
                if out.raised is not None:
                    sym = "refused-or-failed-operation-changed-an-object"
                elif out.readonly:
                    sym = "read-only-operation-changed-its-operand" if (len(ev) > 1 and i in ev[1:]) else "read-only-operation-changed-another-object"
                else:
                    sym = "write-leaked-into-another-object"
                names_only = (pre[i][0] == post[i][0] and _strip_names(pre[i]) == _strip_names(post[i]))
                if names_only:
                    sym += "-name"
                agg.violation(V(f"event.{ev[0]}", sym,
                                {"history": [list(e) for e in hist], "changed_slot": i, "slot_kinds": [s.kind for s in world.slots]},
                                _short(pre[i]), _short(post[i]), py=_py(hist)))
                return


def _strip_names(o):
    if o[0] == "V":
        return (o[0], None, o[2], o[3])
    if o[0] == "T":
        return (o[0], None, tuple(_strip_names(c) for c in o[2]), o[3])
    return o


def _short(o):
    if o[0] == "V":
        return {"name": o[1], "values": [e[1] for e in o[2]], "dtype": o[3]}
    if o[0] == "T":
        return {"columns": [_short(c) for c in o[2]], "len": o[3]}
    return o


def _py(hist):
    return "# history (event, slot indices): " + repr([list(e) for e in hist])


def check(ctx):
    agg = Agg()
    depth = ctx.pick(3, 4)
    pool = ctx.pick(4, 4)
    drv = Driver(pool=pool)
    explorer.bfs(drv, depth, agg)
    from mc import purity
    units = purity.plan(level_full_kinds=ctx.pick(("int", "int?", "float", "str", "date", "object"), tuple(purity.KINDS)))
    for p in core.pmap(purity.unit_purity, units) + core.pmap(purity.unit_nested_copies, [("nested-copies",)]) + core.pmap(purity.unit_region_sources, [("region-sources",)]) + core.pmap(purity.unit_refusal_class, [("refusal-class",)]) + core.pmap(purity.unit_odd_names, [("odd-names",)]) + core.pmap(purity.unit_join_key_kinds, [("join-key-kinds",)]):
        agg.merge(p)
    agg.notes["bound"] = (f"H: depth<={depth} events from each of 4 seed worlds, pool<={pool} objects; "
                          f"E: {len(units)} (operand kind x provenance form x second operand) scenarios x every derivation x every later write")
    agg.sample({"seed_worlds": [[list(e) for e in s] for s in drv.seeds()]})
    return agg


def coverage_goals(ctx, agg):
    bad = []
    if agg.outcomes.get("write-ok", 0) < 100:
        bad.append("successful writes")
    if agg.outcomes.get("refused:AliasError", 0) < 1:
        bad.append("AliasError-refused write")
    if agg.outcomes.get("pure-op", 0) < 100:
        bad.append("pure operations")
    return bad


def replay(rec):
    case = rec.get("case") or {}
    if case.get("operand") == "vector of two vectors":
        from mc import purity
        return set(purity.unit_nested_copies(("nested-copies",)).viol)
    if case.get("join_key_kinds"):
        from mc import purity
        return set(purity.unit_join_key_kinds(("join-key-kinds",)).viol)
    if case.get("odd_names"):
        from mc import purity
        return set(purity.unit_odd_names(("odd-names",)).viol)
    if case.get("sharing"):
        from mc import purity
        return set(purity.unit_refusal_class(("refusal-class",)).viol)
    if case.get("destination_kind"):
        from mc import purity
        return set(purity.unit_region_sources(("region-sources",)).viol)
    if "derivation" in case:
        from mc import purity
        return set(purity.unit_purity(("purity", case["operand"], case["form"], case.get("second_operand"), "full", case["derivation"])).viol)
    if "history" not in case:
        return None
    hist = tuple(tuple(e) for e in case["history"])
    drv = Driver()
    agg = Agg()
    w, pre, out = explorer.replay(drv, hist)
    drv.check(w, pre, hist[-1], out, agg, hist)
    return set(agg.viol)
