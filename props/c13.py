"""C13 — window keeps every row in place and agrees with aggregate (Engine E, hash seeds)."""
from __future__ import annotations

import hashlib

from mc import core, groupspace as gs
from mc.core import Agg, V
from mc.models import obs
from props import c12

RULE = ("same space as C12 (tables <=N rows, 1..3 keys over 3-symbol alphabets incl. None, 12 argument menus, 3 key forms); "
        "window row i must equal the REFERENCE aggregate of row i's group (so an aggregate bug is not inherited) and serif's own "
        "aggregate joined back on the key; plus window-write-window histories; "
        "non-trivial = interleaved groups: some group's rows are not contiguous")
ASSUMPTIONS = ["argument menus and alphabets as in C12"]
METHOD = "window"
VARIANT = [0]      # provenance round-robin counter (per worker process, reset per unit)


def interleaved(keys):
    for k, rows in gs.groups_of(keys):
        if rows and rows[-1] - rows[0] + 1 != len(rows):
            return True
    return False


_arg_identities = c12._arg_identities


def check_window(agg, h, kind, nkeys, form, keys, vals, menu_name):
    menu = gs.MENUS[menu_name]
    case = gs.describe(kind, nkeys, form, keys, vals, menu_name, METHOD)
    site = f"window.{form}.{menu_name}"
    py = gs.py_repro(keys, vals, nkeys, form, menu_name, METHOD)
    calls = []
    try:
        VARIANT[0] += 1
        case["variant"] = VARIANT[0]
        t, over = gs.build(keys, vals, nkeys, form, variant=VARIANT[0])
        kw = gs.build_kwargs(t, vals, menu, form, calls)
    except Exception as e:
        agg.violation(V("window.build-inputs", "raises-" + type(e).__name__, case))
        return
    before = obs(t)
    groups, outs = gs.ref_aggregate(keys, vals, menu)
    n = len(keys)
    gidx = {}
    for gi, (_, rows) in enumerate(groups):
        for r in rows:
            gidx[r] = gi
    agg.evals += 1
    agg.transitions += 1
    arg_ids = _arg_identities(over, kw)
    try:
        res = t.window(over=over, **kw)
    except Exception as e:
        agg.violation(V(site, "raises-" + type(e).__name__, case, None, repr(e)[:100], py))
        return
    if _arg_identities(over, kw) != arg_ids:
        agg.violation(V(site, "call-changed-a-list-argument-of-the-caller", case, None, None, py))
        return
    agg.compared += 1
    cols = [list(c._underlying) for c in res._underlying]
    h.update(repr([list(map(repr, c)) for c in cols]).encode())
    if len(cols) != nkeys + len(outs):
        agg.violation(V(site, "wrong-number-of-columns", case, nkeys + len(outs), len(cols), py))
        return
    if any(len(c) != n for c in cols):
        agg.violation(V(site, "row-count-changed", case, n, [len(c) for c in cols], py))
        return
    want_keys = [[k[j] for k in keys] for j in range(nkeys)]
    if [list(map(repr, c)) for c in cols[:nkeys]] != [list(map(repr, c)) for c in want_keys]:
        agg.violation(V(site, "key-columns-not-reproduced", case, want_keys, cols[:nkeys], py))
        return
    ok = True
    for (fn, src, gvals), got in zip(outs, cols[nkeys:]):
        want = [gvals[gidx[i]] for i in range(n)]
        if not all(gs.value_close(a, b) for a, b in zip(got, want)):
            same_in_group = all(repr(got[i]) == repr(got[rows[0]]) for _, rows in groups for i in rows)
            sym = f"wrong-{fn}-values" if same_in_group else f"rows-of-one-group-differ-{fn}"
            if menu_name in ("twice", "two-unnamed", "sum-mean-unnamed", "two-cols", "two-same-name", "lshift-built"):
                sym += "-" + menu_name
            agg.violation(V(f"window.{form}.{fn}", sym, case, {"fn": fn, "source": src, "values": want}, got, py))
            ok = False
    if "apply" in menu:
        want_calls = [[gs.source_values("v", vals)[i] for i in rows] for _, rows in groups]
        if sorted(map(repr, calls)) != sorted(map(repr, want_calls)):
            agg.violation(V(f"window.{form}.apply", "apply-calls-differ", case, want_calls, calls, py))
            ok = False
    # cross-check with serif's own aggregate, joined back on the key
    if ok and "apply" not in menu:
        try:
            t2, over2 = gs.build(keys, vals, nkeys, form)
            a = t2.aggregate(over=over2, **gs.build_kwargs(t2, vals, menu, form, []))
            agg.transitions += 1
            acols = [list(c._underlying) for c in a._underlying]
            akeys = list(zip(*acols[:nkeys])) if acols and acols[0] else []
            agg.compared += 1
            for i in range(n):
                gi = [j for j, k in enumerate(akeys) if tuple(k) == tuple(keys[i])]
                if len(gi) != 1 or any(not gs.value_close(acols[nkeys + c][gi[0]], cols[nkeys + c][i]) for c in range(len(outs))):
                    agg.violation(V(site, "disagrees-with-aggregate-joined-on-key", case, None, None, py))
                    ok = False
                    break
        except Exception as e:
            agg.violation(V(site, "aggregate-crosscheck-raises-" + type(e).__name__, case))
    if obs(t) != before:
        agg.violation(V(site, "input-modified", case, None, None, py))
    agg.outcomes["agree" if ok else "mismatch"] += 1


def run_unit(unit):
    if unit[0] == "hist":
        return c12.run_hist(unit)
    if unit[0] == "gextra":
        from mc import groupextra
        return groupextra.run_extra_unit(unit, METHOD)
    kind, nkeys, n, first, level = unit
    agg = Agg()
    h = hashlib.sha256()
    last = None
    VARIANT[0] = 0
    for keys, vals in gs.cases(unit):
        agg.states += 1
        if interleaved(keys):
            agg.nontrivial += 1
            agg.outcomes["interleaved-groups"] += 1
        for form in gs.FORMS:
            for menu_name in gs.menus_for(nkeys, n, form, level):
                check_window(agg, h, kind, nkeys, form, keys, vals, menu_name)
        last = (keys, vals)
    agg.digests[repr(unit)] = h.hexdigest()
    if last:
        agg.sample(gs.describe(kind, nkeys, "name", last[0], last[1], "all6", METHOD))
    return agg


def check(ctx):
    from mc import hashseeds
    units = gs.plan_units(ctx.thorough)
    units += [("hist", k, f, METHOD, ctx.pick(2, 3)) for k in ("str", "intc") for f in ("name", "column")]
    units += [("hist", "str", f, METHOD, 2, "recycle") for f in (("name", "column") if ctx.thorough else ("name",))]
    if not ctx.thorough:
        units += [("hist", "str", "name", METHOD, 3, "fresh", p) for p in ("cell", "view", "replace", "cell2", "view2")]
    units += [("gextra", f) for f in ("grid", "floats", "patterns", "applies", "tuplekeys", "calls", "stateful", "numerics")]
    agg = hashseeds.run(ctx, "props.c13", units)
    agg.notes["bound"] = "rows<=4 (1 key) / <=3 (2 keys) quick; <=5 / <=4 / <=2 (3 keys) thorough"
    agg.notes["exhaustive"] = True
    return agg


def coverage_goals(ctx, agg):
    return [k for k in ("agree", "hist-agree", "interleaved-groups") if agg.outcomes.get(k, 0) < 100]


def replay(rec):
    case = rec.get("case") or {}
    agg = Agg()
    _fam = {"grid of composite keys": "grid", "float accumulation": "floats", "every two-group arrangement": "patterns",
            "several custom functions on one column": "applies", "one-shot iterable arguments": "applies",
            "tuple-valued keys": "tuplekeys", "two calls on the same table": "calls",
            "custom functions that raise or count their calls": "stateful", "Fraction / Decimal / complex values": "numerics"}
    if case.get("family") in _fam:
        from mc import groupextra
        fam = _fam[case["family"]]
        return set(groupextra.run_extra_unit(("gextra", fam), METHOD).viol)
    if "hist" in case:
        col, idx, new, path = case["hist"]
        c12.hist_one(agg, case["kind"], case["form"], case["method"], [tuple(k) for k in case["keys"]], case["values"], col, idx, new, path)
        return set(agg.viol)
    if "menu" in case and case.get("method") == METHOD:
        VARIANT[0] = int(case.get("variant", 1)) - 1
        check_window(agg, hashlib.sha256(), case["kind"], case["nkeys"], case["form"], [tuple(k) for k in case["keys"]], case["values"], case["menu"])
        return set(agg.viol)
    return None
