"""C03 — a vector's reported dtype is always truthful (Engine E over the operation catalogue)."""
from __future__ import annotations

import io
import itertools
import operator
from datetime import date, datetime

from mc import core
from mc.core import Agg, V
from mc.models import truthful, schema_of, same_list

RULE = ("operation catalogue (13 binary operators x 5 operand forms, unary, <<, >>, assignment through every key form with single and "
        "multi values of every kind, cast, fillna, dropna, isna, copy, slice, mask, sort_by, T, to_object, Vector.new, broadcast methods, "
        "join/aggregate/window/sort/CSV columns, table arithmetic) x operand vectors of 10 kinds x {no None, None first, None last, all None} "
        "x lengths 0..2; every vector produced must (a) hold only elements belonging to its reported kind, (b) be nullable if it holds None, "
        "(c) accept v[i] = v[i] for every i without changing its schema. non-trivial = operation involving two different kinds or a None")
ASSUMPTIONS = ["vectors constructed with an explicit dtype= argument are the caller's assertion and are not judged",
               "membership counts the documented widenings bool<int<float<complex and date<datetime"]

D1, D2 = date(2020, 1, 2), date(2021, 3, 4)
T1, T2 = datetime(2020, 1, 2, 3, 4), datetime(2021, 3, 4, 5, 6)
VALS = {
    "bool": [True, False], "int": [1, -2], "float": [0.5, 2.0], "complex": [1j, 2 + 0j], "str": ["a", "B"],
    "bytes": [b"x", b"yz"], "date": [D1, D2], "datetime": [T1, T2], "object": [1, "a"], "list": [[1], [2, 3]],
}


CANON_TYPES = (bool, int, float, complex, str, bytes, date, datetime, list, dict, tuple)


LONG = [False]      # thorough tier: operand vectors of length 3 as well


def pool(kinds=None):
    """(label, values) operand vectors."""
    out = [("empty", [])]
    for k, (a, b) in VALS.items():
        if kinds and k not in kinds:
            continue
        out += [(f"{k}1", [a]), (f"{k}2", [a, b]), (f"{k}N", [a, None]), (f"N{k}", [None, b])]
        if LONG[0]:
            out += [(f"{k}3", [a, b, a]), (f"{k}3N", [a, None, b]), (f"N{k}3", [None, a, b]), (f"{k}3NN", [a, None, None])]
    out += [("none1", [None]), ("none2", [None, None])]
    if LONG[0]:
        out += [("none3", [None, None, None])]
    return out


def check_vec(agg, site, vec, case, seen=None):
    """Invariant (a)(b) + write-back (c) on one produced vector (tables: each column)."""
    from serif import Vector
    if type(vec).__name__ == "Table":
        for c in vec._underlying:
            check_vec(agg, site, c, case)
        return
    if not isinstance(vec, Vector):
        return
    agg.compared += 1
    t = truthful(vec)
    if t:
        if "-in-" in t and t != "none-in-non-nullable":
            t = "element-outside-reported-kind"
        agg.violation(V(site, t, dict(case, result=list(vec._underlying), schema=schema_of(vec))))
        agg.outcomes["untruthful"] += 1
        return
    agg.outcomes["truthful"] += 1
    # write-back on a private copy - also for instances of SUBCLASSES of builtin types (struct_time, IsoCalendarDate, an IntEnum
    # member): inference counts them as their base kind, so the vector must take them back
    try:
        w = vec.copy()
    except Exception as e:
        agg.violation(V(site, "copy-of-result-raises-" + type(e).__name__, case))
        return
    s0 = schema_of(w)
    for i in range(len(w._underlying)):
        agg.transitions += 1
        try:
            w[i] = w._underlying[i]
        except Exception as e:
            agg.violation(V(site, "write-back-refused-" + type(e).__name__, dict(case, result=list(vec._underlying), schema=s0, index=i)))
            return
        if schema_of(w) != s0:
            agg.violation(V(site, "write-back-changes-schema", dict(case, result=list(vec._underlying), index=i), s0, schema_of(w)))
            return
    if not same_list(list(w._underlying), list(vec._underlying)):
        agg.violation(V(site, "write-back-changes-values", case, list(vec._underlying), list(w._underlying)))


BIN = {"add": operator.add, "sub": operator.sub, "mul": operator.mul, "truediv": operator.truediv, "floordiv": operator.floordiv,
       "mod": operator.mod, "pow": operator.pow, "eq": operator.eq, "ne": operator.ne, "lt": operator.lt, "ge": operator.ge,
       "and": operator.and_, "or": operator.or_}
UN = {"neg": operator.neg, "pos": operator.pos, "abs": operator.abs, "invert": operator.invert}


def unit_binary(unit):
    from serif import Vector
    _, opn = unit
    op = BIN[opn]
    agg = Agg()
    P = pool()
    for (la, a), (lb, b) in itertools.product(P, P):
        if len(a) != len(b):
            continue
        agg.states += 1
        nt = la[:3] != lb[:3] or None in a or None in b
        for form in ("vv", "vl", "lv", "vs", "sv"):
            if form in ("vs", "sv") and (not b or b[0] is None):
                continue
            case = {"op": opn, "left": a, "right": b, "form": form}
            try:
                va = Vector(list(a))
                if form == "vv":
                    r = op(va, Vector(list(b)))
                elif form == "vl":
                    r = op(va, list(b))
                elif form == "lv":
                    r = op(list(b), va)
                elif form == "vs":
                    r = op(va, b[0])
                else:
                    if isinstance(b[0], (str, bytes, list)) and opn in ("mod", "eq", "ne", "lt", "ge", "mul", "add"):
                        agg.skipped["left-scalar-handles-op-itself"] += 1
                        continue
                    r = op(b[0], va)
            except Exception:
                agg.skipped["operation-raises"] += 1
                continue
            agg.evals += 1; agg.transitions += 1
            if nt:
                agg.nontrivial += 1
            check_vec(agg, f"binary.{opn}.{form}", r, case)
    agg.sample({"binary": opn, "operands": len(P)})
    return agg


def unit_misc(unit):
    from serif import Vector, Table
    from serif.typing import DataType
    agg = Agg()
    P = pool()

    def run(site, case, thunk, nt=True):
        try:
            r = thunk()
        except Exception:
            agg.skipped["operation-raises"] += 1
            return
        agg.evals += 1; agg.transitions += 1; agg.states += 1
        if nt:
            agg.nontrivial += 1
        check_vec(agg, site, r, case)

    what = unit[1]
    if what == "unary":
        for la, a in P:
            for opn, op in UN.items():
                run(f"unary.{opn}", {"op": opn, "operand": a}, lambda: op(Vector(list(a))), None in a)
            run("construct", {"values": a}, lambda: Vector(list(a)), None in a)
            run("copy", {"values": a}, lambda: Vector(list(a)).copy())
            run("T", {"values": a}, lambda: Vector(list(a)).T)
            run("to_object", {"values": a}, lambda: Vector(list(a)).to_object())
            run("isna", {"values": a}, lambda: Vector(list(a)).isna())
            run("dropna", {"values": a}, lambda: Vector(list(a)).dropna())
            run("unique", {"values": a}, lambda: Vector(list(a)).unique())
            for rev in (False, True):
                run("sort_by", {"values": a, "reverse": rev}, lambda: Vector(list(a)).sort_by(reverse=rev))
            for sl in (slice(0, 1), slice(1, None), slice(0, 0), slice(None, None, -1)):
                run("getitem.slice", {"values": a, "slice": [sl.start, sl.stop, sl.step]}, lambda: Vector(list(a))[sl])
            for mask in itertools.product([True, False], repeat=len(a)):
                if a:
                    run("getitem.mask", {"values": a, "mask": list(mask)}, lambda: Vector(list(a))[list(mask)])
            for tgt in (int, float, str, bool, complex, date, datetime, bytes):
                run(f"cast.{tgt.__name__}", {"values": a, "target": tgt.__name__}, lambda: Vector(list(a)).cast(tgt))
            for fk, (f0, _) in VALS.items():
                run(f"fillna", {"values": a, "fill": f0}, lambda: Vector(list(a)).fillna(f0))
            run("fillna", {"values": a, "fill": None}, lambda: Vector(list(a)).fillna(None))
        # casts of TEXT that looks like values of other kinds (dates with and without a time of day, numerals, booleans, blanks):
        # whatever a cast accepts, the vector it returns holds elements of the kind it reports
        texts = ["2024-03-02", "2024-03-02T08:30:00", "2024-03-04 17:45:10", "2024-03-02T00:00:00", "5", "2.5", "1e3", "True", "false", " 7 ", "", "1+2j", "0x10", "nan"]
        for n_ in (1, 2):
            for combo in itertools.product(texts, repeat=n_):
                for tgt in (int, float, str, bool, complex, date, datetime, bytes):
                    run(f"cast.{tgt.__name__}.text", {"values": list(combo), "target": tgt.__name__}, lambda: Vector(list(combo)).cast(tgt))
                    run(f"cast.{tgt.__name__}.text", {"values": list(combo) + [None], "target": tgt.__name__}, lambda: Vector(list(combo) + [None]).cast(tgt))
        # vectors holding instances of subclasses of the ladder kinds (an int subclass, an IntEnum member, str / float / date /
        # tuple subclasses), alone and next to plain values, in both orders
        from props.c04 import IntSub, FloatSub, StrSub, DateSub, TupleSub, Colour
        subs = {"IntSub": (IntSub(3), 5), "IntEnum": (Colour.RED, 5), "FloatSub": (FloatSub(1.5), 2.5), "StrSub": (StrSub("b"), "a"), "DateSub": (DateSub(2021, 3, 4), D1),
                "TupleSub": (TupleSub((3,)), (1, 2))}
        for sname, (sv, plain) in subs.items():
            for vals in ([sv], [sv, plain], [plain, sv], [sv, None], [None, sv], [sv, sv], [True, sv] if sname in ("IntSub", "IntEnum") else [plain, sv, plain]):
                run("construct.subclass", {"values": [repr(x) for x in vals], "subclass": sname}, lambda: Vector(list(vals)))
                run("copy.subclass", {"values": [repr(x) for x in vals], "subclass": sname}, lambda: Vector(list(vals)).copy())
                run("lshift.subclass", {"values": [repr(x) for x in vals], "subclass": sname}, lambda: Vector(list(vals)) << [sv])
                run("getitem.subclass", {"values": [repr(x) for x in vals], "subclass": sname}, lambda: Vector(list(vals))[::-1])
        for dflt in (0, 1.5, "x", None, True, D1):
            for n in (0, 1, 2):
                for ts in ((False, True) if dflt is not None else (False,)):   # typesafe=True with a None default is a contradictory request
                    run("Vector.new", {"default": dflt, "length": n, "typesafe": ts}, lambda: Vector.new(dflt, n, typesafe=ts))
    elif what == "concat":
        for (la, a), (lb, b) in itertools.product(P, P):
            nt = la[:3] != lb[:3] or None in a or None in b
            case = {"left": a, "right": b}
            run("lshift.vector", case, lambda: Vector(list(a)) << Vector(list(b)), nt)
            run("lshift.list", case, lambda: Vector(list(a)) << list(b), nt)
            if b:
                run("lshift.scalar", dict(case, right=b[0]), lambda: Vector(list(a)) << b[0], nt)
                run("rlshift.scalar", dict(case, left=b[0], right=a), lambda: b[0] << Vector(list(a)), nt)
            run("rlshift.list", case, lambda: list(b) << Vector(list(a)), nt)
            if len(a) == len(b) and a:
                run("rshift.vector", case, lambda: Vector(list(a)) >> Vector(list(b)), nt)
                run("rshift.list", case, lambda: Vector(list(a)) >> list(b), nt)
                run("table.lshift.row", case, lambda: Table([Vector(list(a)), Vector(list(b))]) << [a[0], b[0]], nt)
                run("table.lshift.row-swapped", case, lambda: Table([Vector(list(a)), Vector(list(b))]) << [b[0], a[0]], nt)
                run("table.add-scalar", case, lambda: Table([Vector(list(a)), Vector(list(b))]) + 1, nt)
                run("table.add-table", case, lambda: Table([Vector(list(a))]) + Table([Vector(list(b))]), nt)
                run("table.T", case, lambda: Table([Vector(list(a)), Vector(list(b))]).T, nt)
    elif what == "assign":
        # every value kind through every key form, single and multi-value
        # ... and text that LOOKS like a value of another kind (ISO dates, numerals, 'True'): refused or accommodated, never stored raw under the old dtype
        values = [v[0] for v in VALS.values()] + [None] + ["2020-01-02", "2020-01-02T03:04:05", "2020-01-02 03:04:05", "5", "2.5", "1j", "True", "None", "", b"5"]
        for la, a in P:
            if not a:
                continue
            n = len(a)
            for val in values:
                nt = True
                keys = [("int", 0), ("int", -1), ("slice", slice(0, 1)), ("slice", slice(None)), ("mask", [True] + [False] * (n - 1)),
                        ("mask-vector", None), ("index-list", [0]), ("index-tuple", (n - 1,)), ("index-vector", None)]
                for kname, key in keys:
                    def thunk():
                        v = Vector(list(a))
                        k = key
                        if kname == "mask-vector":
                            k = Vector([True] + [False] * (n - 1))
                        elif kname == "index-vector":
                            k = Vector([0])
                        v[k] = val
                        return v
                    run(f"setitem.{kname}.scalar", {"vector": a, "key": kname, "value": val}, thunk)
            if n == 2:
                # the target comes fresh, or with a HISTORY that left the nullable flag set although no None is held any more
                # (a None written and overwritten; a None-free slice of a nullable vector), or after an earlier promotion
                hists = ["fresh"] + (["none-written-and-overwritten", "none-free-slice-of-nullable", "promoted-earlier"] if None not in a else [])
                for hist in hists:
                    def build():
                        if hist == "fresh":
                            return Vector(list(a))
                        if hist == "none-written-and-overwritten":
                            v = Vector(list(a)); v[0] = None; v[0] = a[0]; return v
                        if hist == "none-free-slice-of-nullable":
                            return (Vector(list(a) + [None]))[0:2]
                        v = Vector(list(a))
                        wide = {int: 0.5, bool: 2, float: 1j, date: datetime(2001, 1, 1)}.get(type(a[0]))
                        if wide is None:
                            raise ValueError("no wider kind")
                        v[1] = wide
                        return v
                    for v1, v2 in itertools.product(values, repeat=2):
                        for kname, key in (("slice", slice(0, 2)), ("mask", [True, True]), ("index-list", [0, 1]), ("index-list-rev", [1, 0])):
                            for vform in ("list", "tuple", "vector"):
                                def thunk():
                                    v = build()
                                    seq = [v1, v2]
                                    val = seq if vform == "list" else (tuple(seq) if vform == "tuple" else Vector(seq))
                                    v[key if kname != "index-list-rev" else [1, 0]] = val
                                    return v
                                run(f"setitem.{kname}.multi" + ("" if hist == "fresh" else ".history"), {"vector": a, "history": hist, "key": kname, "values": [v1, v2], "value_form": vform}, thunk)
        # table cell / row / column assignment
        for (la, a), (lb, b) in itertools.product(pool(("int", "float", "str", "bool")), repeat=2):
            if len(a) != len(b) or not a:
                continue
            for val in values:
                def mk():
                    return Table([Vector(list(a), name="a"), Vector(list(b), name="b")])
                def t1():
                    t = mk(); t[0, "a"] = val; return t
                def t2():
                    t = mk(); t[0] = [val, val]; return t
                def t3():
                    t = mk(); t[:, "b"] = [val] * len(a); return t
                def t4():
                    t = mk(); t.a = [val] * len(a); return t
                run("table.setitem.cell", {"a": a, "b": b, "value": val}, t1)
                run("table.setitem.row", {"a": a, "b": b, "value": val}, t2)
                run("table.setitem.column", {"a": a, "b": b, "value": val}, t3)
                run("table.setattr.column", {"a": a, "b": b, "value": val}, t4)
    elif what == "tableops":
        from serif import read_csv
        pays = [[10, 20], [0.5, None], ["x", "y"], [None, None], [True, None], [D1, D2], [None, 7]]
        keysets = [[1, 2], [2, 1], [1, 1], [2, 3], [3, 1], [None, 1]]
        for lk, rk in itertools.product(keysets, repeat=2):
            for lp, rp in itertools.product(pays, repeat=2):
                case = {"left_keys": lk, "right_keys": rk, "left_payload": lp, "right_payload": rp}
                def L(): return Table({"k": lk, "lp": lp})
                def R(): return Table({"k": rk, "rp": rp})
                for meth in ("inner_join", "join", "full_join"):
                    run(f"columns.{meth}", case, lambda: getattr(L(), meth)(R(), "k", "k", expect="many_to_many"))
        for keys in (["a", "a", "b"], ["a", "b", "a"], [None, "a", None]):
            for vals in itertools.product([1, 2.5, None, True], repeat=3):
                case = {"keys": keys, "values": list(vals)}
                def T(): return Table({"k": keys, "v": list(vals)})
                kw = dict(sum_over="v", mean_over="v", min_over="v", max_over="v", count_over="v", stdev_over="v")
                run("columns.aggregate", case, lambda: T().aggregate(over="k", **kw))
                run("columns.window", case, lambda: T().window(over="k", **kw))
                run("columns.sort_by", case, lambda: T().sort_by("v"))
                run("columns.sort_by.desc", case, lambda: T().sort_by(["k", "v"], reverse=[True, False], na_last=False))
        # less common numeric element types: the statistics of complex / Fraction / Decimal columns are complex / Fraction / Decimal
        from fractions import Fraction
        from decimal import Decimal
        for keys in (["a", "a", "b"], ["a", "b", "a"]):
            for pal in ([1 + 2j, 3j, None], [Fraction(1, 3), Fraction(5, 2), None], [Decimal("0.5"), Decimal("2.25"), None], [1 + 2j, 2, 0.5]):
                for vals in itertools.product(pal, repeat=3):
                    case = {"keys": keys, "values": [repr(v) for v in vals]}
                    def T(): return Table({"k": keys, "v": list(vals)})
                    for fn in ("sum", "mean", "min", "max", "count", "stdev"):
                        run(f"columns.aggregate.{fn}", case, lambda: T().aggregate(over="k", **{fn + "_over": "v"}))
                        run(f"columns.window.{fn}", case, lambda: T().window(over="k", **{fn + "_over": "v"}))
        # rows of a table are vectors too: read a row, change a column in place (None / wider value / replacement), read again
        homog = [{"x": [1, 2], "y": [3, 4]}, {"x": [0.5, 1.5], "y": [2.5, 3.5]}, {"x": ["a", "b"], "y": ["c", "d"]}, {"x": [True, False], "y": [False, True]}]
        writes = [("view-none", lambda t: t["x"].__setitem__(1, None)), ("cell-none", lambda t: t.__setitem__((0, "y"), None)),
                  ("view-wider", lambda t: t["x"].__setitem__(0, 2.5)), ("cell-wider", lambda t: t.__setitem__((1, "y"), 2.5)),
                  ("replace", lambda t: setattr(t, "x", [None, None])), ("column", lambda t: t.__setitem__((slice(None), "y"), [None, 1j])),
                  ("replace-other-kind", lambda t: setattr(t, "x", ["s", "t"])), ("replace-both-other-kind", lambda t: (setattr(t, "x", ["s", "t"]), setattr(t, "y", ["u", "v"]))),
                  ("replace-float", lambda t: setattr(t, "y", [1.5, 2.5]))]
        for cols in homog:
            for wl, w in writes:
                for first_read in (True, False):
                    def thunk():
                        t = Table({k: list(v) for k, v in cols.items()})
                        if first_read:
                            t[0]; [tuple(r) for r in t]; t.shape
                        held = [t[0], t[1]]                 # rows taken BEFORE the write and not looked at: they hold the old cells
                        w(t)
                        rows = [t[0], t[1]] + [r.copy() for r in t]
                        # used as vectors only now: their slices carry the rows' dtype, which must describe the cells they hold
                        return rows + [h[0:2] for h in held] + [h[::-1] for h in held]
                    try:
                        rows = thunk()
                    except Exception:
                        agg.skipped["operation-raises"] += 1
                        continue
                    agg.evals += 1; agg.transitions += 3; agg.states += 1; agg.nontrivial += 1
                    for r in rows:
                        check_vec(agg, f"row.after-{wl}", r, {"table": cols, "write": wl, "row_read_before_write": first_read})
        cells = ["", "1", "2.5", "x", " ", "nan", "1e3", "True"]
        for n in (1, 2, 3):
            for col in itertools.product(cells, repeat=n):
                text = "h,g\n" + "".join(f"{c},7\n" for c in col)
                run("columns.read_csv", {"text": text}, lambda: read_csv(io.StringIO(text)))
                jag = "h,g,f\n" + "".join((f"{c},7,8\n" if i % 2 == 0 else f"{c},7\n") for i, c in enumerate(col))
                run("columns.read_csv.jagged", {"text": jag}, lambda: read_csv(io.StringIO(jag)))
    elif what == "methods":
        for kind, vals in (("str", ["a b", "Cd", None]), ("int", [5, -3, None]), ("float", [0.5, 2.0, None]), ("date", [D1, D2, None])):
            pytype = type(vals[0])
            generic = set(dir(Vector))
            for name in dir(pytype):
                if name.startswith("_") or name in generic or name in ("today", "fromtimestamp", "from_bytes"):
                    continue
                is_prop = not callable(getattr(pytype, name))
                for args in ([()] if is_prop else [(), ("a",), (1,), (2, "big"), ("%Y",), ("a", "b")]):
                    for data in (vals[:2], vals, [None, vals[0]]):
                        def thunk():
                            v = Vector(list(data))
                            return getattr(v, name) if is_prop else getattr(v, name)(*args)
                        run(f"method.{kind}.{name}", {"data": data, "args": list(args)}, thunk, None in data)
    agg.sample({"catalogue-part": what})
    return agg


def unit_catalogue(unit):
    """every result of the run-time derivation catalogue of mc/purity.py (every operator x every scalar / list / vector / table
    second operand in both orders, every public method and property, indexing forms, joins, aggregate, window, sort, stacking)
    on 13 operand kinds x 6 provenance forms (stand-alone, live column view, donor, nullable history, table, row): each vector
    or table that comes back must report a truthful dtype - also after the operand has then been written in place"""
    from mc import purity
    _, kind, form, ykind = unit
    agg = Agg()
    for label, fn, live in purity.all_derivations(kind, form, ykind):
        sc = purity.Scenario(kind, form, ykind)
        agg.evals += 1; agg.transitions += 1; agg.states += 1
        try:
            r = fn(sc)
        except Exception:
            agg.skipped["operation-raises"] += 1
            continue
        case = {"operand": kind, "form": form, "second_operand": ykind, "derivation": label}
        items = r if isinstance(r, (list, tuple)) else [r]
        for it in items[:6]:
            if purity.is_row(it):
                try:
                    it = it[0:len(it)]          # a row's slice is an ordinary vector carrying the row's dtype
                except Exception:
                    continue
            if purity.is_vec(it):
                if ykind is not None or kind in ("int?", "float?", "str?", "object") or form in ("rewritten", "row"):
                    agg.nontrivial += 1
                check_vec(agg, "catalogue." + form + "." + purity._site(label), it, case)
    return agg


def run_unit(unit):
    if unit[0] == "cat":
        return unit_catalogue(unit)
    if unit[0] == "bin":
        return unit_binary(unit)
    return unit_misc(unit)


def check(ctx):
    LONG[0] = ctx.thorough
    units = [("bin", o) for o in BIN] + [("misc", w) for w in ("unary", "concat", "assign", "tableops", "methods")]
    from mc import purity
    units += [("cat", u[1], u[2], u[3]) for u in purity.plan(())]
    agg = core.merge_all(core.pmap(run_unit, units))
    agg.notes["bound"] = f"operand vectors of length 0..{3 if ctx.thorough else 2} over 10 kinds with None first/last/all; see RULE"
    agg.notes["exhaustive"] = True
    return agg


def coverage_goals(ctx, agg):
    return [] if agg.outcomes.get("truthful", 0) > 5000 else ["truthful"]


def replay(rec):
    return None
