"""C11 — join cardinality expectations are enforced exactly (Engine E: full decision table)."""
from __future__ import annotations

import itertools

from mc import core, joinspace as js
from mc.core import Agg, V

RULE = ("decision table: 3 join kinds x 4 valid + 6 invalid expect values x every pair of key lists of length 0..R over a 3-symbol alphabet "
        "(ints, hash-colliding ints, strings; None is a symbol; 1 and 2 key columns); "
        "non-trivial = a duplicate key exists on at least one side (so at least one expect value must be refused)")
ASSUMPTIONS = ["all-None key column versus typed key column is rejected by dtype validation: not judged"]

VALID = {"one_to_one": (True, True), "many_to_one": (False, True), "one_to_many": (True, False), "many_to_many": (False, False)}
INVALID = ["", "one-to-one", "MANY_TO_MANY", "many_to_many ", None, 1, "one_to_one\n", "many_to_many\n", "\none_to_many", "many_to_one\r\n", "one_to_one\x00",
           "one_to_one_to_one", "one_to_", b"one_to_one", ("one_to_one",)]
METHODS = ("inner_join", "join", "full_join")


def plan(thorough):
    units = []
    R = 4 if thorough else 3
    for kind in ("int", "intc", "str"):
        for nl in range(0, R + 1):
            units.append((kind, 1, "std", ("name",), nl, R))
    for nl in range(0, (3 if thorough else 2) + 1):
        if thorough and nl == 3:
            units[0:0] = [("int", 2, "std", ("name",), nl, 3, first) for first in range(9)]      # the big unit, split by its first left key
        else:
            units.append(("int", 2, "std", ("name",), nl, 3 if thorough else 2))
    units.append(("invalid",))
    units += [("extra", f) for f in ("skew", "args", "dupnames", "twice", "self", "expectstr", "namesake", "dupkeys", "typednone", "large", "keyorder")]
    return units


def run_unit(unit):
    from serif.errors import SerifValueError
    if unit[0] == "extra":
        from mc import joinextra
        return joinextra.run_extra_unit(unit, METHODS, all_expects=True)
    agg = Agg()
    if unit[0] == "invalid":
        for lkeys, rkeys in js.cases(("int", 1, "std", ("name",), 0, 2)):
            pass
        for nl in range(0, 3):
            for lkeys in js.key_lists("int", 1, nl):
                for nr in range(0, 3):
                    for rkeys in js.key_lists("int", 1, nr):
                        lkeys, rkeys = list(lkeys), list(rkeys)
                        if js.all_dtype_rejected(lkeys, rkeys, 1):
                            continue
                        agg.states += 1
                        for method in METHODS:
                            for ex in INVALID:
                                L, lon, _ = js.build_side("L", lkeys, 1, "std", "name")
                                R, ron, _ = js.build_side("R", rkeys, 1, "std", "name")
                                agg.evals += 1; agg.transitions += 1; agg.compared += 1
                                case = js.describe_case("int", 1, "std", "name", lkeys, rkeys, method, ex)
                                try:
                                    getattr(L, method)(R, left_on=lon, right_on=ron, expect=ex)
                                    agg.violation(V(f"{method}.expect", "invalid-expect-accepted", case, "SerifValueError", "returned"))
                                except SerifValueError:
                                    agg.outcomes["invalid-expect-rejected"] += 1
                                except Exception as e:
                                    agg.violation(V(f"{method}.expect", "invalid-expect-raises-" + type(e).__name__, case, "SerifValueError", repr(e)[:80]))
                                # a rejected call leaves nothing behind: every valid expectation still means what it says
                                for ex2, (need_l, need_r) in VALID.items():
                                    must = (need_l and not js.unique(lkeys)) or (need_r and not js.unique(rkeys))
                                    agg.evals += 1; agg.transitions += 1; agg.compared += 1
                                    c2 = dict(case, history=[f"{method}(expect={ex!r}) rejected", f"{method}(expect={ex2!r})"])
                                    try:
                                        getattr(L, method)(R, left_on=lon, right_on=ron, expect=ex2)
                                        r2 = None
                                    except SerifValueError as e:
                                        r2 = e
                                    except Exception as e:
                                        agg.violation(V(f"{method}.after-rejected-expect", "raises-" + type(e).__name__, c2, None, repr(e)[:80]))
                                        continue
                                    if must and r2 is None:
                                        agg.violation(V(f"{method}.after-rejected-expect", "accepts-violated-expectation", c2))
                                    elif not must and r2 is not None:
                                        agg.violation(V(f"{method}.after-rejected-expect", "refuses-holding-expectation", c2, "rows", repr(r2)[:80]))
                                    else:
                                        agg.outcomes["verdict-after-rejected-call-ok"] += 1
        agg.sample({"invalid expect values": [repr(x) for x in INVALID]})
        return agg
    kind, nkeys, config, forms, nl, maxr = unit[:6]
    last = None
    for lkeys, rkeys in js.cases(unit):
        if js.all_dtype_rejected(lkeys, rkeys, nkeys):
            agg.skipped["all-None-vs-typed-key-column"] += 1
            continue
        lu, ru = js.unique(lkeys), js.unique(rkeys)
        agg.states += 1
        if not (lu and ru):
            agg.nontrivial += 1
        for method in METHODS:
            base = None
            for ex, (need_l, need_r) in VALID.items():
                must_raise = (need_l and not lu) or (need_r and not ru)
                case = js.describe_case(kind, nkeys, config, "name", lkeys, rkeys, method, ex)
                case["left_unique"] = lu
                case["right_unique"] = ru
                try:
                    L, lon, lcols = js.build_side("L", lkeys, nkeys, config, "name")
                    R, ron, rcols = js.build_side("R", rkeys, nkeys, config, "name")
                except Exception as e:
                    agg.violation(V("join.build-inputs", "raises-" + type(e).__name__, case))
                    continue
                agg.evals += 1; agg.transitions += 1; agg.compared += 1
                py = js.py_repro(lcols, rcols, lkeys, rkeys, nkeys, "name", method, ex)
                cell = f"{'L-unique' if lu else 'L-dup'}/{'R-unique' if ru else 'R-dup'}"
                try:
                    res = getattr(L, method)(R, left_on=lon, right_on=ron, expect=ex)
                    raised = None
                except SerifValueError as e:
                    raised = e
                except Exception as e:
                    agg.violation(V(f"{method}.{ex}", "raises-" + type(e).__name__, case, "SerifValueError or rows", repr(e)[:100], py))
                    continue
                if must_raise and raised is None:
                    agg.violation(V(f"{method}.{ex}", f"accepts-{cell}", case, "SerifValueError", js.result_rows(res), py))
                    agg.outcomes["wrongly-accepted"] += 1
                elif not must_raise and raised is not None:
                    agg.violation(V(f"{method}.{ex}", f"refuses-{cell}", case, "rows", repr(raised)[:100], py))
                    agg.outcomes["wrongly-refused"] += 1
                elif must_raise:
                    agg.outcomes["refused-as-required"] += 1
                else:
                    agg.outcomes["accepted-as-required"] += 1
                    want = js.REF[method](lcols, rcols, lkeys, rkeys)
                    got = js.result_rows(res)
                    agg.compared += 1
                    sym = js.classify_rows(got, want)
                    if sym:
                        agg.violation(V(f"{method}.{ex}", "result-differs-from-many_to_many-" + sym, case, want, got, py))
                last = case
    if last:
        agg.sample(last)
    return agg


def run_hist(unit):
    """join with a uniqueness expectation that holds; edit the key column in place (once / twice) so that it stops (or starts)
    holding; join again - the verdict must follow the CURRENT keys.  Run under fresh and recycled storage identities."""
    from serif.errors import SerifValueError
    _, policy = unit
    core.reset_globals(policy)
    agg = Agg()
    for method in METHODS:
        for side in ("R", "L"):
            ex = "many_to_one" if side == "R" else "one_to_many"
            for n in (2, 3, 4):
                keys = list(range(1, n + 1))
                for i in range(n):
                    for j in range(n):
                        if i == j:
                            continue
                        for path in ("cell", "view"):
                            for writes in (1, 2):
                                agg.evals += 1; agg.transitions += 2 + writes; agg.states += 1; agg.nontrivial += 1; agg.compared += 2
                                case = {"method": method, "expect": ex, "side": side, "keys": keys, "dup": [i, j], "path": path, "writes": writes,
                                        "allocator": policy, "history": ["join (expectation holds)", f"{writes} in-place write(s) creating a duplicate key", "join again"]}
                                try:
                                    other = [(k,) for k in keys]
                                    L, lon, _ = js.build_side("L", other, 1, "std", "name")
                                    R, ron, _ = js.build_side("R", other, 1, "std", "name")
                                    T = R if side == "R" else L
                                    getattr(L, method)(R, left_on=lon, right_on=ron, expect=ex)        # must pass
                                    if writes == 2:
                                        (T.__setitem__((i, "k0"), 99) if path == "cell" else T["k0"].__setitem__(i, 99))
                                    (T.__setitem__((i, "k0"), keys[j]) if path == "cell" else T["k0"].__setitem__(i, keys[j]))
                                except Exception as e:
                                    agg.violation(V(f"{method}.{ex}.history", "setup-raises-" + type(e).__name__, case, None, repr(e)[:80]))
                                    continue
                                try:
                                    getattr(L, method)(R, left_on=lon, right_on=ron, expect=ex)
                                    agg.violation(V(f"{method}.{ex}.history", "duplicate-created-in-place-not-noticed", case, "SerifValueError", "accepted"))
                                    continue
                                except SerifValueError:
                                    pass
                                except Exception as e:
                                    agg.violation(V(f"{method}.{ex}.history", "raises-" + type(e).__name__, case))
                                    continue
                                # and back: remove the duplicate again, the join must be accepted again
                                try:
                                    (T.__setitem__((i, "k0"), keys[i]) if path == "cell" else T["k0"].__setitem__(i, keys[i]))
                                    getattr(L, method)(R, left_on=lon, right_on=ron, expect=ex)
                                    agg.outcomes["history-verdict-follows-keys"] += 1
                                except Exception as e:
                                    agg.violation(V(f"{method}.{ex}.history", "refused-after-duplicate-was-removed-" + type(e).__name__, case))
    agg.sample({"history": ["join", "in-place writes", "join"], "allocator": policy})
    return agg


def check(ctx):
    parts = core.pmap(run_unit, plan(ctx.thorough)) + core.pmap(run_hist, [("hist", "fresh"), ("hist", "recycle")])
    agg = core.merge_all(parts)
    agg.notes["bound"] = "key lists of length 0..3 (quick) / 0..4 (thorough), 1 key column over int/intc/str, 2 key columns over int"
    agg.notes["exhaustive"] = True
    return agg


def _unused_check(ctx):
    agg = core.merge_all(core.pmap(run_unit, plan(ctx.thorough)))
    agg.notes["bound"] = "key lists of length 0..3 (quick) / 0..4 (thorough), 1 key column over int/intc/str, 2 key columns over int"
    agg.notes["exhaustive"] = True
    return agg


def coverage_goals(ctx, agg):
    return [k for k in ("refused-as-required", "accepted-as-required", "invalid-expect-rejected") if agg.outcomes.get(k, 0) < 100]


_FAMILY_UNITS = {'skewed sizes': 'skew', 'caller-owned key lists': 'args', 'repeated column name': 'dupnames', 'two joins on the same table objects': 'twice', 'self-join': 'self', 'expect string built at run time': 'expectstr', "key vector that carries a column's name": 'namesake', 'several different duplicated keys': 'dupkeys', 'typed key column holding only None after a cut': 'typednone', 'large tables': 'large', 'key names listed in another order than the columns': 'keyorder'}


def replay(rec):
    from serif.errors import SerifValueError
    case = rec.get("case") or {}
    if case.get("family") in _FAMILY_UNITS:          # a designated family (mc/joinextra.py): re-run the family, compare signatures
        from mc import joinextra
        return set(joinextra.run_extra_unit(("extra", _FAMILY_UNITS[case["family"]]), METHODS, all_expects=True).viol)
    if "left_keys" not in case or case.get("expect") not in VALID:
        return None
    lkeys = [tuple(k) for k in case["left_keys"]]
    rkeys = [tuple(k) for k in case["right_keys"]]
    method, ex = case["method"], case["expect"]
    need_l, need_r = VALID[ex]
    lu, ru = js.unique(lkeys), js.unique(rkeys)
    must = (need_l and not lu) or (need_r and not ru)
    L, lon, lcols = js.build_side("L", lkeys, case["nkeys"], case["config"], "name")
    R, ron, rcols = js.build_side("R", rkeys, case["nkeys"], case["config"], "name")
    cell = f"{'L-unique' if lu else 'L-dup'}/{'R-unique' if ru else 'R-dup'}"
    sigs = set()
    try:
        getattr(L, method)(R, left_on=lon, right_on=ron, expect=ex)
        if must:
            sigs.add(f"{method}.{ex}|accepts-{cell}")
    except SerifValueError:
        if not must:
            sigs.add(f"{method}.{ex}|refuses-{cell}")
    except Exception as e:
        sigs.add(f"{method}.{ex}|raises-{type(e).__name__}")
    if rec["signature"] not in sigs and "result-differs" in rec["signature"]:
        return None
    return sigs
