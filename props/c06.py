"""C06 — None is handled uniformly: propagates, compares False, is skipped by reductions (Engine E)."""
from __future__ import annotations

import itertools
import warnings
import math
import operator
from datetime import date, datetime, timedelta

from mc import core
from mc.core import Agg, V
from mc.models import same_list, same_value, schema_of, obs

RULE = ("vectors of every kind (bool,int,float,complex,str,date) of length 1..N with None at EVERY subset of positions (incl. all and none) "
        "x right operand vector/list (every None subset) and scalar x 7 arithmetic operators + reflected + unary; 6 comparisons + 3 logical "
        "operators; reductions sum/mean/min/max/stdev/any/all; isna/dropna/fillna(x) for x of the same kind, a wider kind and None. "
        "non-trivial = at least one None and at least one non-None element")
ASSUMPTIONS = ["max/min of a vector without non-None values is not specified and not judged",
               "stdev of fewer than two non-None values is None (C12's statement)",
               "a None *scalar* operand is not an element and is not judged",
               "fillna(x) with x of a wider kind may convert the other elements (1 -> 1.0); they are compared with == there",
               "bitwise ~ is not an arithmetic operator and is not judged"]

D1, D2, D3 = date(2020, 1, 1), date(2021, 6, 15), date(1999, 12, 31)
BASE = {
    "bool": ([True, False, True, True], [False, True, True, False]),
    "int": ([0, -2, 3, 4], [2, 5, -1, 3]),
    "float": ([0.0, -1.5, 2.0, 4.25], [2.0, 0.25, -1.0, 8.0]),
    "complex": ([1j, 2 + 0j, 1 + 1j, -1j], [2 + 0j, 1j, 3 + 0j, 1 + 2j]),
    "str": (["a", "B", "", "zz"], ["x", "", "y", "a"]),
    "date": ([D1, D2, D3, D1], [D2, D2, D1, D3]),
}
# %-templates with one conversion each: an operator that ACCEPTS None as right operand ('<%s>' % None == '<None>') - the None must
# propagate all the same
FMT = (["<%s>", "%s!", "[%s]", "%s%%"], ["<%s>", "%s!", "[%s]", "%s%%"])
PAIRS = [(k, k) for k in BASE] + [("fmt", "str"), ("fmt", "int"), ("fmt", "float"), ("fmt", "date")] + [("int", "float"), ("bool", "int"), ("float", "complex"), ("str", "int"), ("int", "str")]
OPS = {"add": operator.add, "sub": operator.sub, "mul": operator.mul, "truediv": operator.truediv,
       "floordiv": operator.floordiv, "mod": operator.mod, "pow": operator.pow}
CMP = {"eq": operator.eq, "ne": operator.ne, "lt": operator.lt, "le": operator.le, "gt": operator.gt, "ge": operator.ge}
LOGIC = {"and": operator.and_, "or": operator.or_, "xor": operator.xor}
UNARY = {"neg": operator.neg, "pos": operator.pos, "abs": operator.abs}


def with_none(base, mask):
    base = list(base)
    while base and len(base) < len(mask):       # longer vectors than the 4 listed values: cycle them
        base = base + base
    return [None if m else b for b, m in zip(base, mask)]


def masks(n):
    return list(itertools.product([False, True], repeat=n))


def py_prop(op, xs, ys):
    """None-propagating elementwise result, or 'skip' if Python raises on some defined pair."""
    out = []
    try:
        for x, y in zip(xs, ys):
            out.append(None if (x is None or y is None) else op(x, y))
    except Exception:
        return "skip"
    return out


def vec_list(res):
    if type(res).__name__ == "Table" or not hasattr(res, "_underlying"):
        return None
    return list(res._underlying)


def unit_arith(unit):
    from serif import Vector
    _, ka, kb, N = unit
    agg = Agg()
    for n in range(1, N + 1):
        ba, bb = (FMT if ka == "fmt" else BASE[ka])[0][:n], BASE[kb][1][:n]
        for ma in masks(n):
            xs = with_none(ba, ma)
            if all(ma):
                # an all-None vector has no kind of its own; still a legal operand
                pass
            for mb in masks(n):
                ys = with_none(bb, mb)
                nt = (any(ma) or any(mb)) and not (all(ma) and all(mb))
                for opn, op in OPS.items():
                    want = py_prop(op, xs, ys)
                    rwant = py_prop(op, ys, xs)
                    agg.states += 1
                    for form, w in (("vv", want), ("vl", want), ("lv", rwant)):
                        if w == "skip":
                            agg.skipped["python-raises"] += 1
                            continue
                        if nt:
                            agg.nontrivial += 1
                        agg.evals += 1; agg.transitions += 1; agg.compared += 1
                        case = {"op": opn, "left": xs, "right": ys, "form": form, "kinds": [ka, kb]}
                        py = f"from serif import Vector\nfrom datetime import date\nprint(list(Vector({xs!r}) .__{opn}__({'Vector(' if form=='vv' else ''}{ys!r}{')' if form=='vv' else ''})))  # expected {w!r}"
                        try:
                            v = Vector(xs)
                            if form == "vv":
                                res = op(v, Vector(ys))
                            elif form == "vl":
                                res = op(v, list(ys))
                            else:
                                res = op(list(ys), v)
                        except Exception as e:
                            agg.violation(V(f"arith.{opn}.{form}", "raises-" + type(e).__name__ + "-with-None", case, w, repr(e)[:80], py))
                            continue
                        got = vec_list(res)
                        if got is None or len(got) != n:
                            agg.violation(V(f"arith.{opn}.{form}", "wrong-shape", case, w, repr(res)[:80], py))
                        elif [g is None for g in got] != [x is None for x in w]:
                            agg.violation(V(f"arith.{opn}.{form}", "none-not-propagated", case, w, got, py))
                        elif not same_list(got, w):
                            agg.violation(V(f"arith.{opn}.{form}", "wrong-values", case, w, got, py))
                        else:
                            agg.outcomes["arith-agree"] += 1
            # scalar right / left operand (non-None scalar)
            y = BASE[kb][1][0]
            for opn, op in OPS.items():
                want = py_prop(op, xs, [y] * n)
                rwant = py_prop(op, [y] * n, xs)
                for form, w in (("vs", want), ("sv", rwant)):
                    if w == "skip" or (form == "sv" and isinstance(y, str) and opn == "mod"):
                        agg.skipped["python-raises"] += 1
                        continue
                    agg.evals += 1; agg.transitions += 1; agg.compared += 1; agg.states += 1
                    if any(ma) and not all(ma):
                        agg.nontrivial += 1
                    case = {"op": opn, "left": xs, "right": y, "form": form, "kinds": [ka, kb]}
                    try:
                        v = Vector(xs)
                        res = op(v, y) if form == "vs" else op(y, v)
                    except Exception as e:
                        if all(ma):
                            agg.skipped["all-None-vector-with-scalar-raises"] += 1
                            continue
                        agg.violation(V(f"arith.{opn}.{form}", "raises-" + type(e).__name__ + "-with-None", case, w, repr(e)[:80]))
                        continue
                    got = vec_list(res)
                    if got is None or len(got) != n:
                        agg.violation(V(f"arith.{opn}.{form}", "wrong-shape", case, w, repr(res)[:80]))
                    elif [g is None for g in got] != [x is None for x in w]:
                        agg.violation(V(f"arith.{opn}.{form}", "none-not-propagated", case, w, got))
                    elif not same_list(got, w):
                        agg.violation(V(f"arith.{opn}.{form}", "wrong-values", case, w, got))
                    else:
                        agg.outcomes["arith-agree"] += 1
            # unary
            if ka == kb:
                for opn, op in UNARY.items():
                    try:
                        want = [None if x is None else op(x) for x in xs]
                    except Exception:
                        agg.skipped["python-raises"] += 1
                        continue
                    agg.evals += 1; agg.transitions += 1; agg.compared += 1; agg.states += 1
                    case = {"op": opn, "operand": xs, "kind": ka}
                    py = f"from serif import Vector\nimport operator\nprint(list(operator.{opn}(Vector({xs!r}))))  # expected {want!r}"
                    try:
                        res = op(Vector(xs))
                    except Exception as e:
                        if all(ma):
                            agg.skipped["all-None-vector-unary"] += 1
                            continue
                        agg.violation(V(f"unary.{opn}", "raises-" + type(e).__name__ + "-with-None", case, want, repr(e)[:80], py))
                        continue
                    got = vec_list(res)
                    if got is None or not same_list(got, want):
                        agg.violation(V(f"unary.{opn}", "none-not-propagated" if got and [g is None for g in got] != [x is None for x in want] else "wrong-values", case, want, got, py))
                    else:
                        agg.outcomes["unary-agree"] += 1
    agg.sample({"arith": [ka, kb], "N": N})
    return agg


def unit_compare(unit):
    from serif import Vector
    _, kind, N = unit[:3]
    agg = Agg()
    ops = dict(CMP)
    if kind in ("bool",):
        ops.update(LOGIC)
    kind2 = unit[3] if len(unit) > 3 else kind        # cross-kind comparisons: the right operand is of another kind
    from datetime import datetime as _dt
    XB = dict(BASE, datetime=([_dt(2020, 1, 1), _dt(2020, 1, 2, 3), _dt(2021, 5, 5), _dt(2020, 1, 1)], [_dt(2020, 1, 2), _dt(2020, 1, 2, 3), _dt(2020, 1, 1), _dt(2022, 2, 2)]))
    for n in range(1, N + 1):
        ba, bb = XB[kind][0][:n], XB[kind2][1][:n]
        for ma in masks(n):
            xs = with_none(ba, ma)
            for mb in masks(n):
                ys = with_none(bb, mb)
                for opn, op in ops.items():
                    try:
                        want = [False if (x is None or y is None) else bool(op(x, y)) for x, y in zip(xs, ys)]
                    except Exception:
                        agg.skipped["python-raises"] += 1
                        continue
                    agg.states += 1
                    for form in ("vv", "vl", "self"):
                        if form == "self" and (ys != xs):
                            continue
                        agg.evals += 1; agg.transitions += 1; agg.compared += 1
                        if (any(ma) or any(mb)) and not (all(ma) and all(mb)):
                            agg.nontrivial += 1
                        case = {"op": opn, "left": xs, "right": ys, "form": form, "kind": kind, "right_kind": kind2}
                        py = f"from serif import Vector\nfrom datetime import date\nimport operator\nprint(list(operator.{opn if opn not in LOGIC else opn + '_'}(Vector({xs!r}), {'Vector(' if form != 'vl' else ''}{ys!r}{')' if form != 'vl' else ''})))  # expected {want!r}"
                        try:
                            v = Vector(xs)
                            w_ = Vector(ys)
                            if (len(xs) + len(ys) + sum(ma)) % 2:        # every other case: both operands have a memoized fingerprint
                                v.fingerprint(); w_.fingerprint()
                                case["fingerprints_cached_before"] = True
                            res = op(v, w_) if form == "vv" else (op(v, list(ys)) if form == "vl" else op(v, v))
                        except Exception as e:
                            if all(ma) and kind == "date":
                                agg.skipped["all-None-date-vector"] += 1
                                continue
                            agg.violation(V(f"compare.{opn}.{form}", "raises-" + type(e).__name__ + "-with-None", case, want, repr(e)[:80], py))
                            continue
                        got = vec_list(res)
                        if got is None or len(got) != n:
                            agg.violation(V(f"compare.{opn}.{form}", "wrong-shape", case, want, repr(res)[:60], py))
                        elif not same_list(got, want):
                            bad_none = any((x is None or y is None) and g is not False for x, y, g in zip(xs, ys, got))
                            agg.violation(V(f"compare.{opn}.{form}", "none-position-not-false" if bad_none else "wrong-values", case, want, got, py))
                        elif schema_of(res) != ("bool", False):
                            agg.violation(V(f"compare.{opn}.{form}", "not-nonnullable-bool", case, ("bool", False), schema_of(res), py))
                        else:
                            agg.outcomes["compare-agree"] += 1
            # scalar comparison
            y = XB[kind2][1][0]
            for opn, op in ops.items():
                try:
                    want = [False if x is None else bool(op(x, y)) for x in xs]
                except Exception:
                    agg.skipped["python-raises"] += 1
                    continue
                agg.evals += 1; agg.transitions += 1; agg.compared += 1; agg.states += 1
                case = {"op": opn, "left": xs, "right": y, "form": "vs", "kind": kind}
                try:
                    res = op(Vector(xs), y)
                except Exception as e:
                    agg.violation(V(f"compare.{opn}.vs", "raises-" + type(e).__name__ + "-with-None", case, want, repr(e)[:80]))
                    continue
                got = vec_list(res)
                if got is None or not same_list(got, want):
                    agg.violation(V(f"compare.{opn}.vs", "none-position-not-false" if got and any(x is None and g is not False for x, g in zip(xs, got)) else "wrong-values", case, want, got))
                elif schema_of(res) != ("bool", False):
                    agg.violation(V(f"compare.{opn}.vs", "not-nonnullable-bool", case, ("bool", False), schema_of(res)))
                else:
                    agg.outcomes["compare-agree"] += 1
    agg.sample({"compare": kind, "N": N})
    return agg


def ref_reduce(fn, clean):
    if fn == "sum":
        return sum(clean)
    if fn == "mean":
        return sum(clean) / len(clean) if clean else None
    if fn == "min":
        return min(clean)
    if fn == "max":
        return max(clean)
    if fn == "any":
        return any(clean)
    if fn == "all":
        return all(clean)
    if fn == "stdev":
        if len(clean) < 2:
            return None
        m = sum(clean) / len(clean)
        return math.sqrt(sum((x - m) ** 2 for x in clean) / (len(clean) - 1))
    if fn == "stdev-population":        # None is skipped: the divisor is the number of non-None values
        m = sum(clean) / len(clean)
        return math.sqrt(sum((x - m) ** 2 for x in clean) / len(clean))


def red_close(a, b):
    if a is None or b is None:
        return a is b
    if isinstance(a, bool) or isinstance(b, bool):
        return a is b or (a == b and type(a) is type(b))
    if isinstance(a, (float, complex)) or isinstance(b, (float, complex)):
        return abs(a - b) <= 1e-9 * max(1.0, abs(a), abs(b))
    return a == b and type(a) is type(b)


def unit_reduce(unit):
    from serif import Vector
    _, kind, N = unit
    agg = Agg()
    fns = {"bool": ["sum", "mean", "min", "max", "any", "all", "stdev", "stdev-population"],
           "int": ["sum", "mean", "min", "max", "any", "all", "stdev", "stdev-population"],
           "float": ["sum", "mean", "min", "max", "any", "all", "stdev", "stdev-population"],
           "complex": ["sum", "mean", "any", "all"],
           "str": ["min", "max", "any", "all"],
           "date": ["min", "max"]}[kind]
    for n in range(1, N + 1):
        for base in BASE[kind]:
            for m in masks(n):
                xs = with_none(base[:n], m)
                clean = [x for x in xs if x is not None]
                agg.states += 1
                try:
                    v = Vector(xs)
                except Exception as e:
                    agg.violation(V("reduce.build", "raises-" + type(e).__name__, {"values": xs}))
                    continue
                if len(v) != n:
                    agg.violation(V("len", "len-does-not-count-None", {"values": xs}, n, len(v)))
                for fn in fns:
                    if fn in ("min", "max") and not clean:
                        agg.skipped["min-max-of-no-values-unspecified"] += 1
                        continue
                    if fn == "stdev-population" and len(clean) < 2:
                        agg.skipped["population-stdev-of-fewer-than-two-values-unspecified"] += 1
                        continue
                    want = ref_reduce(fn, clean)
                    agg.evals += 1; agg.transitions += 1; agg.compared += 1
                    if clean and len(clean) < n:
                        agg.nontrivial += 1
                    case = {"reduction": fn, "values": xs, "kind": kind}
                    call = "stdev(population=True)" if fn == "stdev-population" else fn + "()"
                    py = f"from serif import Vector\nfrom datetime import date\nprint(Vector({xs!r}).{call})  # expected {want!r}"
                    try:
                        got = v.stdev(population=True) if fn == "stdev-population" else getattr(v, fn)()
                    except Exception as e:
                        agg.violation(V(f"reduce.{fn}", "raises-" + type(e).__name__ + ("-with-None" if None in xs else ""), case, want, repr(e)[:80], py))
                        continue
                    if not red_close(got, want):
                        counted = ref_reduce(fn, [0 if x is None else x for x in xs]) if kind in ("int", "float", "bool") and fn in ("sum", "mean") else None
                        agg.violation(V(f"reduce.{fn}", "none-not-skipped" if None in xs else "wrong-value", case, want, got, py))
                    else:
                        agg.outcomes["reduce-agree"] += 1
    # ---- the same reductions asked of a TABLE run down every column: each column's answer is that column's own reduction
    from serif import Table
    for n in range(2, N + 1):
        b0, b1 = BASE[kind][0][:n], BASE[kind][1][:n]
        for m0 in masks(n):
            for m1 in (masks(n) if n <= 3 else [tuple([False] * n), tuple([True] + [False] * (n - 1))]):
                c0, c1 = with_none(b0, m0), with_none(b1, m1)
                if all(m0) or all(m1):
                    continue                      # a column of nothing but None has no kind of its own; the vector part covers it
                agg.states += 1
                try:
                    with warnings.catch_warnings():
                        warnings.simplefilter("ignore")
                        t = Table([Vector(list(c0), name="a"), Vector(list(c1), name="b")])
                except Exception:
                    continue
                for fn in fns:
                    want = [ref_reduce(fn, [x for x in c if x is not None]) if not (fn == "stdev-population" and sum(x is not None for x in c) < 2) else "unspecified" for c in (c0, c1)]
                    agg.evals += 1; agg.transitions += 1; agg.compared += 1
                    if any(m0) or any(m1):
                        agg.nontrivial += 1
                    case = {"reduction": fn, "table_columns": [c0, c1], "kind": kind}
                    try:
                        r = t.stdev(population=True) if fn == "stdev-population" else getattr(t, fn)()
                        got = list(r._underlying) if hasattr(r, "_underlying") else list(r)
                    except Exception as e:
                        agg.violation(V(f"reduce.table.{fn}", "raises-" + type(e).__name__ + ("-with-None" if (any(m0) or any(m1)) else ""), case, want, repr(e)[:80]))
                        continue
                    if len(got) != 2 or any(w != "unspecified" and not red_close(g, w) for g, w in zip(got, want)):
                        agg.violation(V(f"reduce.table.{fn}", "none-not-skipped" if (any(m0) or any(m1)) else "wrong-value", case, want, got))
                    else:
                        agg.outcomes["reduce-agree"] += 1
    agg.sample({"reduce": kind, "N": N})
    return agg


FILL = {
    "bool": [("same", True), ("wider", 7), ("none", None)],
    "int": [("same", 0), ("wider", 0.5), ("none", None)],
    "float": [("same", 9.5), ("wider", 1j), ("none", None)],
    "complex": [("same", 3j), ("none", None)],
    "str": [("same", "fill"), ("none", None)],
    "date": [("same", D3), ("wider", datetime(2022, 2, 2, 12, 30)), ("none", None)],
}


NA_BASE = dict({k: v[0] for k, v in BASE.items()}, object=[1, "a", 2.5, b"x"])
FILL["object"] = [("same", "fill"), ("same", (0, 0)), ("same", [7]), ("same", (8,)), ("none", None)]      # a tuple / list is ONE fill value


def unit_na(unit):
    from serif import Vector
    _, kind, N = unit
    agg = Agg()
    for n in range(1, N + 1):
        base = NA_BASE[kind][:n]
        for m in masks(n):
            xs = with_none(base, m)
            if kind == "object":
                sch = Vector(xs).schema()
                if sch is None or sch.kind is not object or all(e is None for e in xs):
                    continue    # not an object (mixed) vector any more; covered by the typed kinds
            agg.states += 1
            if any(m) and not all(m):
                agg.nontrivial += 1
            case = {"values": xs, "kind": kind}
            histories = [(None, "fresh"), ("nm", "fresh")]
            if not any(m) and kind != "object":
                # the dtype was nullable at some point of the vector's life; its values hold no None (any more)
                histories += [(None, "none-written-then-overwritten"), (None, "none-sliced-away"), (None, "none-masked-away")]
            for name, prov in histories:
                case = dict(case, operand_history=prov)
                try:
                    if prov == "fresh":
                        v = Vector(xs, name=name)
                    elif prov == "none-written-then-overwritten":
                        v = Vector(list(xs)); v[0] = None; v[0] = xs[0]
                    elif prov == "none-sliced-away":
                        v = Vector([None] + list(xs))[1:]
                    else:
                        v = Vector(list(xs) + [None])[[True] * n + [False]]
                    b = obs(v)
                    isna = v.isna()
                    agg.transitions += 1; agg.evals += 1; agg.compared += 1
                    gi = vec_list(isna)
                    if gi != [x is None for x in xs] or schema_of(isna) != ("bool", False):
                        agg.violation(V("isna", "wrong-mask", case, [x is None for x in xs], gi))
                        continue
                except Exception as e:
                    agg.violation(V("isna", "raises-" + type(e).__name__, case))
                    continue
                # dropna removes exactly the positions isna marks
                try:
                    d = v.dropna()
                    agg.transitions += 1; agg.evals += 1; agg.compared += 1
                    want = [x for x, f in zip(xs, gi) if not f]
                    gd = vec_list(d)
                    if gd is None or not same_list(gd, want):
                        agg.violation(V("dropna", "does-not-match-isna", case, want, gd))
                    elif schema_of(d) is None or schema_of(d)[1] is not False:
                        agg.violation(V("dropna", "result-reports-nullable", case, False, schema_of(d)))
                    else:
                        agg.outcomes["dropna-agree"] += 1
                except Exception as e:
                    agg.violation(V("dropna", "raises-" + type(e).__name__ + ("-all-None" if all(m) else ""), case, None, repr(e)[:80]))
                # fillna(x) replaces exactly those positions and nothing else
                for label, x in FILL[kind]:
                    agg.transitions += 1; agg.evals += 1; agg.compared += 1
                    c2 = dict(case, fill=x, fill_kind=label)
                    py = f"from serif import Vector\nfrom datetime import date\nprint(list(Vector({xs!r}).fillna({x!r})))"
                    want = [x if e is None else e for e in xs]
                    try:
                        f = v.fillna(x)
                    except Exception as e:
                        if kind == "bool" and label == "wider" and obs(v) == b:
                            # bool -> int is a documented widening for *membership*; whether a bool column may be
                            # promoted in place is not fixed by the statement: a clean refusal is accepted
                            agg.skipped["bool-column-refuses-int-fill (clean)"] += 1
                            continue
                        agg.violation(V(f"fillna.{label}", "raises-" + type(e).__name__ + ("-all-None" if all(m) else ""), c2, want, repr(e)[:80], py))
                        continue
                    gf = vec_list(f)
                    if gf is None or len(gf) != n:
                        agg.violation(V(f"fillna.{label}", "wrong-shape", c2, want, repr(f)[:60], py))
                        continue
                    if label == "wider" and kind == "date":
                        # date -> datetime: the kept elements become midnight datetimes, the fill value is stored as it is
                        want = [x if e is None else datetime(e.year, e.month, e.day) for e in xs]
                        okv = same_list(gf, want)
                    elif label == "wider":
                        okv = all((g == w) and (e is not None or same_value(g, w)) for g, w, e in zip(gf, want, xs))
                    else:
                        okv = same_list(gf, want)
                    if not okv:
                        agg.violation(V(f"fillna.{label}", "not-exactly-the-isna-positions", c2, want, gf, py))
                    elif x is not None and (schema_of(f) is None or schema_of(f)[1] is not False):
                        agg.violation(V(f"fillna.{label}", "result-reports-nullable", c2, False, schema_of(f), py))
                    elif x is None and any(m) and schema_of(f) is not None and schema_of(f)[1] is not True:
                        agg.violation(V(f"fillna.{label}", "none-in-non-nullable-result", c2, True, schema_of(f), py))
                    else:
                        agg.outcomes["fillna-agree"] += 1
                if obs(v) != b:
                    agg.violation(V("na-ops", "operand-modified", case))
                # subsets taken AFTER isna()/dropna() were called on the parent must answer for themselves
                if name is None and n >= 2:
                    subsets = [("tail", lambda x: x[1:], xs[1:]), ("reversed", lambda x: x[::-1], xs[::-1]),
                               ("non-null", lambda x: x[[e is not None for e in xs]], [e for e in xs if e is not None]),
                               ("copy", lambda x: x.copy(), list(xs))]
                    for sl_name, take, want_vals in subsets:
                        agg.evals += 1; agg.transitions += 3; agg.compared += 1
                        c3 = dict(case, history=["isna/dropna on parent", f"take {sl_name}", "isna/dropna/fillna on the subset"])
                        try:
                            p = Vector(xs)
                            p.isna(); p.dropna()
                            sub = take(p)
                            gi2 = vec_list(sub.isna())
                            gd2 = vec_list(sub.dropna())
                        except Exception as e:
                            agg.violation(V(f"isna.after-subset.{sl_name}", "raises-" + type(e).__name__, c3, None, repr(e)[:80]))
                            continue
                        if gi2 != [e is None for e in want_vals]:
                            agg.violation(V(f"isna.after-subset.{sl_name}", "subset-answers-with-parents-none-positions", c3, [e is None for e in want_vals], gi2))
                        elif gd2 is None or not same_list(gd2, [e for e in want_vals if e is not None]):
                            agg.violation(V(f"dropna.after-subset.{sl_name}", "does-not-match-isna", c3, [e for e in want_vals if e is not None], gd2))
                        else:
                            agg.outcomes["subset-na-agree"] += 1
                    # a returned mask / result belongs to the caller: editing it must not change what the vector answers next
                    for which in ("isna", "dropna", "fillna"):
                        agg.evals += 1; agg.transitions += 4; agg.compared += 1
                        c4 = dict(case, history=[f"r = v.{which}()", "edit r in place", "ask v again"])
                        try:
                            p = Vector(xs)
                            r = p.isna() if which == "isna" else (p.dropna() if which == "dropna" else p.fillna(FILL[kind][0][1]))
                            if len(r):
                                if which == "isna":
                                    r[0] = not r._underlying[0]
                                    r[[True] * len(r)] = [not b for b in r._underlying]
                                else:
                                    r[0] = r._underlying[-1]
                            gi3 = vec_list(p.isna())
                            gd3 = vec_list(p.dropna())
                            gf3 = vec_list(p.fillna(FILL[kind][0][1]))
                        except Exception as e:
                            agg.violation(V(f"{which}.result-edited", "raises-" + type(e).__name__, c4, None, repr(e)[:80]))
                            continue
                        fillv = FILL[kind][0][1]
                        if (gi3 != [e is None for e in xs] or gd3 is None or not same_list(gd3, [e for e in xs if e is not None])
                                or gf3 is None or not same_list(gf3, [fillv if e is None else e for e in xs]) or not same_list(list(p._underlying), xs)):
                            agg.violation(V(f"{which}.result-edited", "editing-a-returned-result-changed-the-vector-or-its-answers", c4,
                                            {"isna": [e is None for e in xs]}, {"isna": gi3, "dropna": gd3, "fillna": gf3}))
                        else:
                            agg.outcomes["result-edit-agree"] += 1
    agg.sample({"isna/dropna/fillna": kind, "N": N})
    return agg


def unit_reduce_hist(unit):
    """reduce, edit in place twice (the second edit stores None), reduce again - run under CPython-like identity recycling"""
    from serif import Vector
    _, kind, policy = unit
    core.reset_globals(policy)
    agg = Agg()
    fns = ["sum", "mean", "min", "max", "stdev", "any", "all"] if kind in ("int", "float", "bool") else ["min", "max"]
    for n in (3, 4, 5):
        base = list(BASE[kind][0][:n]) + list(BASE[kind][1][:max(0, n - 4)])
        base = (base * 2)[:n]
        for i in range(n):
            for j in range(n):
                for first, third in (("same", False), ("none", False), ("same", True), ("none", True)):
                    agg.states += 1; agg.nontrivial += 1
                    for fn in fns:
                        agg.evals += 1; agg.transitions += 4; agg.compared += 1
                        case = {"kind": kind, "values": base, "reduction": fn, "allocator": policy,
                                "history": [fn, f"v[{i}] = other value", f"v[{j}] = None", fn]}
                        try:
                            v = Vector(list(base))
                            getattr(v, fn)()
                            cur = list(base)
                            if first == "same":
                                v[i] = base[(i + 1) % n]; cur[i] = base[(i + 1) % n]
                            else:
                                v[i] = None; cur[i] = None
                            v[j] = None; cur[j] = None
                            # further write forms: one position named twice in one assignment (None-ness changing), slices and masks of None
                            k_ = (i + j) % 4 if third else -1          # with and without a third write (identity reuse depends on how many there are)
                            other = base[(j + 1) % n]
                            if k_ == -1:
                                pass
                            elif k_ == 0:
                                v[[i, i]] = None; cur[i] = None
                            elif k_ == 1:
                                v[[j, j]] = [None, other]; cur[j] = other
                            elif k_ == 2:
                                v[Vector([i, j, i])] = None; cur[i] = None; cur[j] = None
                            else:
                                v[i:i + 2] = [None] * len(cur[i:i + 2]); cur[i:i + 2] = [None] * len(cur[i:i + 2])
                            if third:
                                case["history"] = case["history"][:3] + [["v[[i, i]] = None", "v[[j, j]] = [None, x]", "v[Vector([i, j, i])] = None", "v[i:i+2] = None"][k_], fn]
                            clean = [x for x in cur if x is not None]
                            if fn in ("min", "max") and not clean:
                                continue
                            got = getattr(v, fn)()
                        except Exception as e:
                            agg.violation(V(f"reduce.{fn}.after-writes", "raises-" + type(e).__name__, case, None, repr(e)[:80]))
                            continue
                        want = ref_reduce(fn, clean)
                        if not red_close(got, want):
                            agg.violation(V(f"reduce.{fn}.after-writes", "none-not-skipped-after-in-place-writes", case, want, got))
                        else:
                            agg.outcomes["reduce-history-agree"] += 1
    return agg


def unit_groups(unit):
    """per-group aggregates skip None (reuses the reference grouping of C12 on a small space)"""
    import hashlib
    from mc import groupspace as gs
    from props import c12
    _, kind, n = unit
    agg = Agg()
    h = hashlib.sha256()
    for keys, vals in gs.cases((kind, 1, n, None, "full")):
        agg.states += 1
        if None in vals and any(v is not None for v in vals):
            agg.nontrivial += 1
        for menu in ("all6", "sum", "count"):
            c12.check_aggregate(agg, h, kind, 1, "name", keys, vals, menu)
        from props import c13
        for menu in ("all6", "mean", "two-cols"):
            c13.check_window(agg, h, kind, 1, "name", keys, vals, menu)       # the per-row form of the per-group aggregates
    agg.outcomes["group-agree"] = agg.outcomes.pop("agree", 0)
    return agg


def unit_long(unit):
    """size thresholds: long vectors (lengths around 16/32/64/128) with None at designated position patterns - far inside, only
    at the very end, every k-th - for reductions, isna/dropna/fillna, arithmetic and comparison"""
    from serif import Vector
    _, kind = unit
    agg = Agg()
    base4 = BASE[kind][0]
    fns = {"bool": ["sum", "mean", "min", "max", "any", "all", "stdev", "stdev-population"], "int": ["sum", "mean", "min", "max", "any", "all", "stdev", "stdev-population"],
           "float": ["sum", "mean", "min", "max", "any", "all", "stdev", "stdev-population"], "complex": ["sum", "mean"], "str": ["min", "max"], "date": ["min", "max"]}[kind]
    for n in (15, 16, 17, 32, 33, 64, 65, 129):
        pats = {"none": set(), "last": {n - 1}, "first": {0}, "far-inside": {n - 3}, "every-5th": set(range(4, n, 5)), "second-half": set(range(n // 2, n)),
                "all-but-last": set(range(n - 1))}
        for pname, npos in pats.items():
            xs = [None if i in npos else base4[i % 4] for i in range(n)]
            clean = [x for x in xs if x is not None]
            case = {"family": "long vectors", "kind": kind, "len": n, "none_pattern": pname}
            agg.states += 1; agg.nontrivial += 1
            try:
                v = Vector(list(xs))
            except Exception as e:
                agg.violation(V("long.build", "raises-" + type(e).__name__, case))
                continue
            for fn in fns:
                if fn == "stdev-population" and len(clean) < 2:
                    continue
                want = ref_reduce(fn, clean)
                agg.evals += 1; agg.transitions += 1; agg.compared += 1
                try:
                    got = v.stdev(population=True) if fn == "stdev-population" else getattr(v, fn)()
                except Exception as e:
                    agg.violation(V(f"reduce.{fn}.long", "raises-" + type(e).__name__, dict(case, reduction=fn), want, repr(e)[:80]))
                    continue
                if not red_close(got, want):
                    agg.violation(V(f"reduce.{fn}.long", "none-not-skipped" if npos else "wrong-value", dict(case, reduction=fn), want, got))
                else:
                    agg.outcomes["reduce-agree"] += 1
            # isna / dropna / fillna
            fill = FILL[kind][0][1]
            agg.evals += 3; agg.transitions += 3; agg.compared += 3
            try:
                gi, gd, gf = vec_list(v.isna()), vec_list(v.dropna()), v.fillna(fill)
            except Exception as e:
                agg.violation(V("na-ops.long", "raises-" + type(e).__name__, case, None, repr(e)[:80]))
                continue
            if gi != [x is None for x in xs]:
                agg.violation(V("isna.long", "wrong-mask", case))
            elif gd is None or not same_list(gd, clean):
                agg.violation(V("dropna.long", "does-not-match-isna", case))
            elif not same_list(vec_list(gf), [fill if x is None else x for x in xs]):
                agg.violation(V("fillna.long", "not-exactly-the-isna-positions", case))
            elif schema_of(gf) is None or schema_of(gf)[1] is not False:
                agg.violation(V("fillna.long", "result-reports-nullable", case, False, schema_of(gf)))
            else:
                agg.outcomes["fillna-agree"] += 1; agg.outcomes["dropna-agree"] += 1
            # arithmetic / comparison with itself shifted and with a scalar
            other = [base4[(i + 1) % 4] for i in range(n)]
            for opn, op in list(OPS.items())[:3] + list(CMP.items())[:3]:
                is_cmp = opn in CMP
                for form, right in (("vv", other), ("vs", other[0])):
                    ys = right if form == "vv" else [right] * n
                    want = py_prop(op, xs, ys) if not is_cmp else None
                    try:
                        want = [False if (x is None or y is None) else bool(op(x, y)) for x, y in zip(xs, ys)] if is_cmp else \
                               [None if (x is None or y is None) else op(x, y) for x, y in zip(xs, ys)]
                    except Exception:
                        agg.skipped["python-raises"] += 1
                        continue
                    agg.evals += 1; agg.transitions += 1; agg.compared += 1
                    try:
                        res = op(Vector(list(xs)), Vector(list(right)) if form == "vv" else right)
                        got = vec_list(res)
                    except Exception as e:
                        agg.violation(V(f"{'compare' if is_cmp else 'arith'}.{opn}.long", "raises-" + type(e).__name__, dict(case, form=form), None, repr(e)[:80]))
                        continue
                    if got is None or not same_list(got, want):
                        agg.violation(V(f"{'compare' if is_cmp else 'arith'}.{opn}.long", "none-not-propagated" if not is_cmp else "none-does-not-compare-false", dict(case, form=form),
                                        want[:12], (got or [])[:12]))
                    else:
                        agg.outcomes["compare-agree" if is_cmp else "arith-agree"] += 1
    agg.sample({"family": "long vectors", "kind": kind})
    return agg


class EqualsAnything:
    """an element that is NOT None but compares equal to None (unittest.mock.ANY behaves like this): `is None` decides, never `==`"""
    def __init__(self, tag):
        self.tag = tag

    def __eq__(self, other):
        return True

    def __ne__(self, other):
        return False

    def __hash__(self):
        return 7

    def __repr__(self):
        return f"<anything {self.tag}>"


def unit_eqnone(unit):
    """None is told by identity: every arrangement (len <= 3) of None, elements that merely compare EQUAL to None, and a plain
    object, through isna / dropna / fillna, len, and the per-group count of aggregate and window"""
    from serif import Vector, Table
    agg = Agg()
    A, B, obj = EqualsAnything("a"), EqualsAnything("b"), object()
    for n in (1, 2, 3):
        for vals in itertools.product([A, B, None, obj], repeat=n):
            vals = list(vals)
            isn = [x is None for x in vals]
            case = {"values": [repr(x)[:20] for x in vals]}
            agg.states += 1; agg.evals += 1; agg.transitions += 5; agg.compared += 5
            if any(isn) and not all(isn):
                agg.nontrivial += 1
            try:
                v = Vector(list(vals))
                got_isna = list(v.isna()._underlying)
                got_drop = list(v.dropna()._underlying)
                fill = EqualsAnything("fill")
                ln = len(v)
                try:
                    got_fill = list(v.fillna(fill)._underlying)
                except Exception:
                    got_fill = None          # whether this fill value fits the column's kind is another matter
                    agg.skipped["fill-value-refused"] += 1
            except Exception as e:
                agg.violation(V("eqnone.vector", "raises-" + type(e).__name__, case, None, repr(e)[:80]))
                continue
            bad = None
            if got_isna != isn:
                bad = ("isna", isn, got_isna)
            elif [id(x) for x in got_drop] != [id(x) for x in vals if x is not None]:
                bad = ("dropna", [repr(x)[:20] for x in vals if x is not None], [repr(x)[:20] for x in got_drop])
            elif got_fill is not None and [id(x) for x in got_fill] != [id(fill) if x is None else id(x) for x in vals]:
                bad = ("fillna", "only the None positions replaced", [repr(x)[:20] for x in got_fill])
            elif ln != n:
                bad = ("len", n, ln)
            if bad:
                agg.violation(V("eqnone." + bad[0], "an-element-equal-to-None-treated-as-None", case, bad[1], bad[2]))
                continue
            for keys in itertools.product(["g", "h"], repeat=n):
                groups = {}
                for k, x in zip(keys, vals):
                    groups.setdefault(k, []).append(x)
                want = [sum(1 for x in g if x is not None) for g in groups.values()]
                want_rows = [sum(1 for x in groups[k] if x is not None) for k in keys]
                agg.evals += 1; agg.transitions += 2; agg.compared += 2
                try:
                    t = Table({"k": list(keys), "v": list(vals)})
                    got = list(t.aggregate(over="k", count_over="v")._underlying[-1]._underlying)
                    gotw = list(t.window(over="k", count_over="v")._underlying[-1]._underlying)
                except Exception as e:
                    agg.violation(V("eqnone.count_over", "raises-" + type(e).__name__, dict(case, keys=list(keys)), want, repr(e)[:80]))
                    continue
                if got != want:
                    agg.violation(V("eqnone.aggregate.count", "an-element-equal-to-None-treated-as-None", dict(case, keys=list(keys)), want, got))
                elif gotw != want_rows:
                    agg.violation(V("eqnone.window.count", "an-element-equal-to-None-treated-as-None", dict(case, keys=list(keys)), want_rows, gotw))
                else:
                    agg.outcomes["group-agree"] += 1
            agg.outcomes["dropna-agree"] += 1
    return agg


def run_unit(unit):
    return {"eqnone": unit_eqnone, "arith": unit_arith, "cmp": unit_compare, "red": unit_reduce, "na": unit_na, "grp": unit_groups, "redh": unit_reduce_hist, "long": unit_long}[unit[0]](unit)


def check(ctx):
    N = ctx.pick(3, 5)
    units = [("arith", a, b, N) for a, b in PAIRS]
    units += [("cmp", k, N) for k in BASE]
    units += [("cmp", a, N, b) for a, b in (("date", "datetime"), ("datetime", "date"), ("datetime", "datetime"), ("int", "float"), ("float", "int"), ("bool", "int"),
                                            ("int", "str"), ("str", "int"), ("float", "complex"), ("complex", "int"))]
    units += [("red", k, N + 1) for k in BASE]
    units += [("na", k, N + 1) for k in list(BASE) + ["object"]]
    units += [("grp", "str", n) for n in range(1, 4)]
    units += [("long", k) for k in BASE] + [("eqnone",)]
    units += [("redh", k, pol) for k in ("int", "float", "str", "date") for pol in ("fresh", "recycle")]
    agg = core.merge_all(core.pmap(run_unit, units))
    agg.notes["bound"] = f"arith/compare operands len<={N} (incl. %-templates as left operand), reductions and na-ops len<={N+1}, every None subset; elements that compare equal to None: every arrangement len<=3"
    agg.notes["exhaustive"] = True
    return agg


def coverage_goals(ctx, agg):
    return [k for k in ("arith-agree", "unary-agree", "compare-agree", "reduce-agree", "dropna-agree", "fillna-agree") if agg.outcomes.get(k, 0) < 50]


def replay(rec):
    return None
