"""C10 — left and full outer joins keep every row and pad with None (Engine E, hash seeds)."""
from __future__ import annotations

import collections
import hashlib

from mc import core, joinspace as js, provenance

NROUTES = len(provenance.TABLE_ROUTES_ALL)
from mc.core import Agg, V
from mc.models import obs, truthful

RULE = ("same input space as C09 (all table pairs <=R rows, 3-symbol key alphabets incl. None and hash-colliding ints, 1..3 keys, "
        "keys by name/column/external vector), methods join and full_join, plus swap symmetry of full_join and containment laws; "
        "non-trivial = at least one unmatched row on some side AND at least one matched pair")
ASSUMPTIONS = ["all-None key column versus typed key column is rejected by dtype validation: not judged",
               "names of an empty (0x0) result are not judged"]


def nontrivial(lkeys, rkeys):
    matched = any(k in rkeys for k in lkeys)
    unmatched = any(k not in rkeys for k in lkeys) or any(k not in lkeys for k in rkeys)
    return matched and unmatched


def run_unit(unit):
    if unit[0] == "hist":
        return js.run_hist_unit(unit, ("join", "full_join"))
    if unit[0] == "big":
        return js.run_big_unit(unit, ("join", "full_join"))
    if unit[0] == "extra":
        from mc import joinextra
        return joinextra.run_extra_unit(unit, ("join", "full_join"), all_expects=True)
    kind, nkeys, config, forms, nl, maxr = unit
    agg = Agg()
    h = hashlib.sha256()
    last = None
    vi = 0          # provenance round-robin: both tables are built through a different route for every case
    for lkeys, rkeys in js.cases(unit):
        agg.states += 1
        nt = nontrivial(lkeys, rkeys)
        if nt:
            agg.nontrivial += 1
        maybe_rejected = js.all_dtype_rejected(lkeys, rkeys, nkeys)      # see props/c09.py: judged whenever the library does join
        for form in forms:
            results = {}
            for method in ("join", "full_join"):
                case = js.describe_case(kind, nkeys, config, form, lkeys, rkeys, method, "many_to_many")
                try:
                    vi += 1
                    L, lon, lcols = js.build_side("L", lkeys, nkeys, config, form, variant=vi % NROUTES)
                    R, ron, rcols = js.build_side("R", rkeys, nkeys, config, form, variant=(vi // NROUTES) % NROUTES)
                    case["routes"] = [provenance.TABLE_ROUTES_ALL[vi % NROUTES], provenance.TABLE_ROUTES_ALL[(vi // NROUTES) % NROUTES]]
                except Exception as e:
                    agg.violation(V("join.build-inputs", "raises-" + type(e).__name__, case))
                    continue
                bl, br = obs(L), obs(R)
                want = js.REF[method](lcols, rcols, lkeys, rkeys)
                agg.evals += 1
                agg.transitions += 1
                site = f"{method}.{form}"
                py = js.py_repro(lcols, rcols, lkeys, rkeys, nkeys, form, method, "many_to_many")
                try:
                    res = getattr(L, method)(R, left_on=lon, right_on=ron, expect="many_to_many")
                except Exception as e:
                    if maybe_rejected and "mismatched dtypes" in str(e):
                        agg.skipped["all-None-vs-typed-key-column"] += 1
                        continue
                    agg.violation(V(site, "raises-" + type(e).__name__, case, want, repr(e)[:120], py))
                    continue
                agg.compared += 1
                got = js.result_rows(res)
                results[method] = got
                js.digest_update(h, got)
                sym = js.classify_rows(got, want)
                if sym:
                    # refine: which kind of row is wrong
                    if sym in ("missing-rows", "wrong-rows", "wrong-cells"):
                        cg = set(js.canon_rows(got))
                        miss = [r for r in want if tuple(js.canon_rows([r])[0]) not in cg]
                        if miss and all(all(x is None for x in r[:len(lcols)]) for r in miss):
                            sym += "-unmatched-right"
                        elif miss and all(all(x is None for x in r[len(lcols):]) for r in miss):
                            sym += "-unmatched-left"
                    agg.violation(V(site, sym, case, want, got, py))
                    agg.outcomes["mismatch"] += 1
                else:
                    agg.outcomes[f"{method}-agree" + ("-nontrivial" if nt else "")] += 1
                if want:
                    names = [c._name for c in res._underlying]
                    wn = [nm for nm, _ in lcols] + [nm for nm, _ in rcols]
                    if names != wn:
                        agg.violation(V(site, "wrong-column-names", case, wn, names, py))
                    for c in res._underlying:
                        t = truthful(c)
                        if t:
                            agg.violation(V(site, "result-dtype-" + t, case, None, None, py))
                if obs(L) != bl or obs(R) != br:
                    agg.violation(V(site, "input-modified", case, None, None, py))
                # swap symmetry of the full join (as multisets, column blocks permuted)
                if method == "full_join" and form == "name":
                    try:
                        sw = js.result_rows(R.full_join(L, left_on=ron, right_on=lon, expect="many_to_many"))
                        agg.transitions += 1
                        agg.compared += 1
                        nlc = len(lcols)
                        nrc = len(rcols)
                        a = collections.Counter(js.canon_rows(got))
                        b = collections.Counter(js.canon_rows([r[nrc:] + r[:nrc] for r in sw]))
                        if a != b:
                            agg.violation(V("full_join.swap", "not-symmetric", case, got, sw, py))
                    except Exception as e:
                        agg.violation(V("full_join.swap", "raises-" + type(e).__name__, case))
                last = case
            # containment: inner ⊆ left ⊆ full on the implementation's own results (the library's inner_join, not the model's)
            if "join" in results:
                try:
                    Li, loni, _ = js.build_side("L", lkeys, nkeys, config, form, variant=vi % NROUTES)
                    Ri, roni, _ = js.build_side("R", rkeys, nkeys, config, form, variant=(vi // NROUTES) % NROUTES)
                    inner_rows = js.result_rows(Li.inner_join(Ri, left_on=loni, right_on=roni, expect="many_to_many"))
                except Exception:
                    inner_rows = None
                if inner_rows is not None:
                    agg.transitions += 1; agg.compared += 1
                    ci = collections.Counter(js.canon_rows(inner_rows))
                    cl = collections.Counter(js.canon_rows(results["join"]))
                    if ci - cl:
                        agg.violation(V("inner_join-vs-join", "inner-not-contained-in-left",
                                        js.describe_case(kind, nkeys, config, form, lkeys, rkeys, "both", "many_to_many"), results["join"], inner_rows))
            if "join" in results and "full_join" in results:
                a = collections.Counter(js.canon_rows(results["join"]))
                b = collections.Counter(js.canon_rows(results["full_join"]))
                agg.compared += 1
                if a - b:
                    agg.violation(V("join-vs-full_join", "left-not-contained-in-full",
                                    js.describe_case(kind, nkeys, config, form, lkeys, rkeys, "both", "many_to_many")))
    agg.digests[repr(unit)] = h.hexdigest()
    if last:
        agg.sample(last)
    return agg


def check(ctx):
    from mc import hashseeds
    units = js.plan_units(ctx.thorough)
    units += [("hist", k, f) for k in ("int", "str") for f in ("name", "column")]
    units += [("hist", "int", f, "recycle") for f in ("name", "column")]
    units += [("big", p) for p in range(4)]
    units += [("extra", f) for f in ("skew", "args", "dupnames", "twice", "self", "expectstr", "namesake", "dupkeys", "typednone", "large", "keyorder")]
    agg = hashseeds.run(ctx, "props.c10", units)
    agg.notes["bound"] = "see joinspace.plan_units"
    agg.notes["exhaustive"] = True
    return agg


def coverage_goals(ctx, agg):
    return [k for k in ("join-agree-nontrivial", "full_join-agree-nontrivial", "hist-agree") if agg.outcomes.get(k, 0) < 100]


_FAMILY_UNITS = {'skewed sizes': 'skew', 'caller-owned key lists': 'args', 'repeated column name': 'dupnames', 'two joins on the same table objects': 'twice', 'self-join': 'self', 'expect string built at run time': 'expectstr', "key vector that carries a column's name": 'namesake', 'several different duplicated keys': 'dupkeys', 'typed key column holding only None after a cut': 'typednone', 'large tables': 'large', 'key names listed in another order than the columns': 'keyorder'}


def replay(rec):
    case = rec.get("case") or {}
    if case.get("family") in _FAMILY_UNITS:          # a designated family (mc/joinextra.py): re-run the family, compare signatures
        from mc import joinextra
        return set(joinextra.run_extra_unit(("extra", _FAMILY_UNITS[case["family"]]), ("join", "full_join"), all_expects=True).viol)
    if "left_keys" not in case or case.get("kind") == "date" or case.get("method") not in ("join", "full_join"):
        return None
    agg = Agg()
    lkeys = [tuple(k) for k in case["left_keys"]]
    rkeys = [tuple(k) for k in case["right_keys"]]
    if "hist" in case:
        side, idx, new, path = case["hist"]
        js.hist_one(agg, hashlib.sha256(), case["kind"], case["form"], (case["method"],), lkeys, rkeys, side, idx, new, path)
        return set(agg.viol)
    return None
