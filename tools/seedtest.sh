#!/bin/bash
# usage: tools/seedtest.sh <seed_dir> [PROP ...] [-- extra vcheck args]
# Applies <seed_dir>/patch.diff to /repo, confirms tests pass + demo fails, runs the named checks
# (default: property in meta.json) at the quick tier, then reverts /repo.  Developer tool only.
set -u
sd=$(realpath "$1"); shift
props=("$@")
cd /repo || exit 2
if [ -n "$(git status --porcelain --untracked-files=no)" ]; then echo "REPO DIRTY - abort"; exit 2; fi
if [ ${#props[@]} -eq 0 ]; then props=($(python3 -c "import json;print(json.load(open('$sd/meta.json'))['property'])")); fi
if git apply --check "$sd/patch.diff" 2>/dev/null; then git apply "$sd/patch.diff"; how=clean
elif patch -p1 --dry-run -F3 < "$sd/patch.diff" >/dev/null 2>&1; then patch -p1 -F3 -s < "$sd/patch.diff"; how=fuzz
else echo "SEED $(basename $sd): PATCH DOES NOT APPLY"; exit 3; fi
tests=$(PYTHONPATH=/repo/src /venv/bin/python -m pytest -q -p no:cacheprovider --timeout=900 -x 2>&1 | tail -1)
demo=skip
if [ -f "$sd/demo.py" ]; then (cd /tmp && PYTHONPATH=/repo/src timeout 120 /venv/bin/python "$sd/demo.py" >/dev/null 2>&1); demo=$?; fi
res=""
for p in "${props[@]}"; do
  out=$(cd /verif && VERIF_TIER=${TIER:-quick} ./vcheck run $p --tier ${TIER:-quick} 2>&1); rc=$?
  nv=$(echo "$out" | grep -c '^VIOLATION')
  res="$res $p:rc=$rc,viol=$nv"
  echo "$out" | grep -A1 '^VIOLATION' | grep signature | head -4
  [ $rc -ge 2 ] && echo "$out" | tail -5
done
git checkout -- . ; find /repo -name '*.orig' -o -name '*.rej' | xargs -r rm -f
demo2=skip
if [ -f "$sd/demo.py" ]; then (cd /tmp && PYTHONPATH=/repo/src timeout 120 /venv/bin/python "$sd/demo.py" >/dev/null 2>&1); demo2=$?; fi
echo "SEED $(basename $sd) apply=$how tests=[$tests] demo_with=$demo demo_without=$demo2 checks:$res"
