#!/usr/bin/env python3
"""Regenerate MANIFEST.json from the per-property metadata below + the check modules present."""
import json, os
HERE = os.path.dirname(os.path.dirname(os.path.abspath(__file__)))
META = {
 "C01": ("H", "explicit-state BFS over operation histories on the real objects (replay-based states, canonical heap hash); differential frame oracle"),
 "C02": ("H+E", "explicit-state BFS over construction/update histories + bounded-exhaustive structural-op enumeration; rectangularity invariant in every state"),
 "C03": ("E", "bounded-exhaustive enumeration of the operation catalogue x dtype pairs x small vectors; dtype-truthfulness invariant + write-back"),
 "C04": ("A+E", "complete closure of the promotion automaton with the real transition function (+ induction) and exhaustive word enumeration"),
 "C05": ("E", "bounded-exhaustive enumeration operator x operand form x dtype pair x all small vectors against Python's scalar operation"),
 "C06": ("E", "bounded-exhaustive enumeration of every None placement x operator/comparison/reduction against the None rules"),
 "C07": ("E", "bounded-exhaustive enumeration of all indices/slices/masks on all small vectors and tables against list semantics"),
 "C08": ("E", "bounded-exhaustive enumeration key form x value form x dtype with every fault point; list-assignment model + atomicity"),
 "C09": ("E", "bounded-exhaustive enumeration of all small table pairs x key specs under several hash seeds against a nested-loop join"),
 "C10": ("E", "bounded-exhaustive enumeration of all small table pairs against the outer-join definition and derived laws"),
 "C11": ("E", "exhaustive decision table join kind x expect x key multisets"),
 "C12": ("E", "bounded-exhaustive enumeration of tables x key specs x aggregate arguments under several hash seeds against hand grouping"),
 "C13": ("E", "bounded-exhaustive enumeration; window == reference aggregate expanded by key"),
 "C14": ("E", "bounded-exhaustive enumeration of tables x keys x directions x na_last against a stable-sort specification"),
 "C15": ("H", "explicit-state BFS over histories with a virtual allocator: identity reuse and collection timing as enumerated environment choices (deviation-bounded)"),
 "C16": ("H+E", "explicit-state BFS interleaving fingerprint() with every write path + exhaustive single-change/transposition enumeration"),
 "C17": ("E+H", "exhaustive name-list enumeration over an adversarial alphabet + BFS over rename/replace/append/dir histories"),
 "C18": ("E", "bounded-exhaustive enumeration of operation compositions over named/unnamed operands against the name-rule table"),
 "C19": ("E", "bounded-exhaustive enumeration of CSV grids x delimiters x header modes x input kinds against cells written by csv.writer"),
 "C20": ("E", "bounded-exhaustive enumeration dtype x length-around-limit x special values x set_repr_rows against parsed repr"),
}
LEVEL_TEXT = ("Bounded exhaustive model checking of the real implementation: every element of the stated finite space "
              "(inputs / operation histories / automaton states) is executed on the real serif objects and compared with a "
              "reference model; no sampling. The verdict is 'holds within the bound'.")
checks, na = [], []
for pid, (eng, tech) in sorted(META.items()):
    if os.path.exists(os.path.join(HERE, "props", pid.lower() + ".py")):
        checks.append({
            "property_id": pid,
            "quick_cmd": f"./vcheck run {pid} --tier quick",
            "thorough_cmd": f"./vcheck run {pid} --tier thorough",
            "evidence_file": f"evidence/{pid}.json",
            "replay_cmd_template": "./vcheck replay {path}",
            "engine": eng,
            "level_claimed": {"category": "model_checking", "text": LEVEL_TEXT, "design_ref": f"DESIGN.md §7 {pid}"},
            "level_note": "Trusted base: CPython 3.12 semantics, the reference models in mc/models.py and props/, the alphabets/bounds recorded in the evidence file; behaviour outside the bound is not covered.",
            "technique": tech,
        })
    else:
        na.append({"property_id": pid, "reason": "check not built yet (work in progress; model checking applies, see DESIGN.md §7)"})
man = {
 "version": 1,
 "setup_cmd": "mkdir -p evidence replays && chmod +x vcheck && /venv/bin/python -c \"import sys; sys.path.insert(0,'.'); import mc.core, mc.models\"",
 "hooks": {"guard": "SERIF_VERIF", "enable": "no source hooks: the harness injects its seams from outside (module-global id shadow, registry reset, set_repr_rows)",
           "baseline_off_cmd": "cd /repo && /venv/bin/python -m pytest -ra -q -p no:cacheprovider --timeout=900 --continue-on-collection-errors",
           "source_commits": [], "add_only": True},
 "engines": [
   {"name": "H", "path": "mc/explorer.py", "serves_properties": ["C01", "C02", "C15", "C16", "C17"], "kind_free_text": "explicit-state exploration of operation histories on the real objects (replayed from scratch, canonical state hash, deviation-bounded environment choices)"},
   {"name": "E", "path": "mc/core.py", "serves_properties": ["C02","C03","C05","C06","C07","C08","C09","C10","C11","C12","C13","C14","C16","C17","C18","C19","C20"], "kind_free_text": "bounded-exhaustive input enumeration against reference models, 16 workers"},
   {"name": "A", "path": "props/c04.py", "serves_properties": ["C04"], "kind_free_text": "closure of the finite promotion automaton with the real transition function"},
 ],
 "checks": checks,
 "notes": "All checks import serif from /repo/src (or $SERIF_SRC) at run time; pure Python, nothing is built. Exit 0 = held on everything explored (KNOWN-FINDING lines possible), 1 = VIOLATION, 2 = harness fault.",
 "not_applicable": na,
}
json.dump(man, open(os.path.join(HERE, "MANIFEST.json"), "w"), indent=1)
print(f"{len(checks)} checks, {len(na)} not yet claimed")
