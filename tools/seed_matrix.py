#!/usr/bin/env python3
"""Build seeded/SUMMARY.md from every seeded/*/meta.json (which check catches which seeded change)."""
import json, os, glob
HERE = os.path.dirname(os.path.dirname(os.path.abspath(__file__)))
rows = []
for m in sorted(glob.glob(os.path.join(HERE, "seeded", "*", "meta.json"))):
    d = json.load(open(m))
    name = os.path.basename(os.path.dirname(m))
    w = d.get("what_was_run", {})
    rows.append((name, d.get("property"), "yes" if d.get("valid_seed") else "no", "CAUGHT" if d.get("caught") else "missed",
                 (d.get("summary") or "").replace("|", "/")[:150], "; ".join(w.get("violation_signatures", [])[:2]).replace("|", "/")[:140],
                 (d.get("note", "") + ((" [re-run at " + d["revalidated"]["repo_commit"] + ": " + ("does not apply" if not d["revalidated"]["applies"] else
                                       ("caught" if d["revalidated"]["caught_by_quick_check"] else "MISSED")) + "]") if d.get("revalidated") else "")).strip()))
with open(os.path.join(HERE, "seeded", "SUMMARY.md"), "w") as f:
    f.write("# Seeded property-breaking changes (written by independent sub-agents) and the checks that catch them\n\n")
    f.write("`valid` = the change applies to the current /repo HEAD, the 490 tests still pass with it, its demo fails with it and passes without it.\n")
    f.write("Every change was confirmed by `tools/keepseed.py` (apply to /repo, pytest, demo, `./vcheck run <property> --tier quick`, revert).\n\n")
    f.write("| seed | property | valid | quick check | what was changed | first signatures reported | note |\n|---|---|---|---|---|---|---|\n")
    for r in rows:
        f.write("| " + " | ".join(str(x) for x in r) + " |\n")
    v = [r for r in rows if r[2] == "yes"]
    f.write(f"\n{len(rows)} seeds, {len(v)} valid on the current tree, {sum(1 for r in v if r[3] == 'CAUGHT')} of the valid ones caught by the quick tier.\n")
print(len(rows), "seeds")
