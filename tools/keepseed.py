#!/usr/bin/env python3
"""Confirm seeded property-breaking changes against /repo and file them under /verif/seeded/<id>/.

usage: tools/keepseed.py <seed_root> <wave-prefix> [seed names...]
For each seed directory (patch.diff, demo.py, meta.json): apply to /repo (must be clean), run the pinned
test suite (must pass), run the demo (must fail), run the property's quick check (records rc + signatures),
revert, run the demo again (must pass).  Nothing is ever committed to /repo.  Developer tool only."""
import json, os, re, shutil, subprocess, sys

ROOT, PREFIX = sys.argv[1], sys.argv[2]
names = sys.argv[3:] or sorted(d for d in os.listdir(ROOT) if os.path.isdir(os.path.join(ROOT, d)))
REPO, VERIF = "/repo", "/verif"
RUN_DIR = os.environ.get("VERIF_RUN_DIR", VERIF)      # where ./vcheck is executed from (a snapshot, so that /verif can be edited meanwhile)
ENV = dict(os.environ, PYTHONPATH="/repo/src")


def sh(cmd, cwd=None, env=None, timeout=3600):
    return subprocess.run(cmd, shell=True, cwd=cwd, env=env or os.environ, capture_output=True, text=True, timeout=timeout)


def clean():
    return sh("git status --porcelain --untracked-files=no", REPO).stdout.strip() == ""


summary = []
for name in names:
    sd = os.path.join(ROOT, name)
    if not os.path.exists(os.path.join(sd, "patch.diff")):
        continue
    assert clean(), "repo dirty"
    meta = {}
    try:
        meta = json.load(open(os.path.join(sd, "meta.json")))
    except Exception:
        pass
    prop = meta.get("property") or name.split("_")[0]
    how = "clean"
    if sh(f"git apply --check {sd}/patch.diff", REPO).returncode == 0:
        sh(f"git apply {sd}/patch.diff", REPO)
    elif sh(f"patch -p1 --dry-run -F3 < {sd}/patch.diff", REPO).returncode == 0:
        sh(f"patch -p1 -F3 -s < {sd}/patch.diff", REPO); how = "fuzz"
    else:
        summary.append((name, "DOES-NOT-APPLY"))
        print(name, "DOES NOT APPLY", flush=True)
        continue
    applied_diff = sh("git diff", REPO).stdout
    t = sh("/venv/bin/python -m pytest -q -p no:cacheprovider --timeout=900 -x 2>&1 | tail -1", REPO, ENV).stdout.strip()
    d1 = sh(f"timeout 300 /venv/bin/python {sd}/demo.py", "/tmp", ENV).returncode if os.path.exists(f"{sd}/demo.py") else None
    chk = sh(f"./vcheck run {prop} --tier quick", RUN_DIR, timeout=3600)
    sigs = re.findall(r"signature: (.*?)  \(x(\d+)\)", chk.stdout)
    sh("git checkout -- .", REPO)
    sh("find /repo -name '*.orig' -o -name '*.rej' | xargs -r rm -f")
    d2 = sh(f"timeout 300 /venv/bin/python {sd}/demo.py", "/tmp", ENV).returncode if os.path.exists(f"{sd}/demo.py") else None
    tests_ok = "passed" in t and "failed" not in t and "error" not in t
    valid = tests_ok and d1 not in (0, None) and d2 == 0
    caught = chk.returncode == 1 and len(sigs) > 0
    out = os.path.join(VERIF, "seeded", f"{PREFIX}{name}")
    os.makedirs(out, exist_ok=True)
    with open(os.path.join(out, "patch.diff"), "w") as f:
        f.write(applied_diff)
    for extra in ("demo.py", "patch.orig.diff"):
        if os.path.exists(os.path.join(sd, extra)) and os.path.realpath(os.path.join(sd, extra)) != os.path.realpath(os.path.join(out, extra)):
            shutil.copy(os.path.join(sd, extra), os.path.join(out, extra))
    head = sh("git rev-parse --short HEAD", REPO).stdout.strip()
    meta_out = {
        "property": prop,
        "summary": meta.get("summary"),
        "needs": meta.get("needs"),
        "files": meta.get("files"),
        "written_by": "independent sub-agent given only the property text and a scratch worktree",
        "applies_to_repo_commit": head,
        "rebased_by_hand": os.path.exists(os.path.join(sd, "patch.orig.diff")) or how == "fuzz",
        "what_was_run": {
            "apply": f"git -C /repo apply patch.diff ({how})",
            "tests_with_patch": t,
            "demo_exit_with_patch": d1,
            "demo_exit_without_patch": d2,
            "check": f"./vcheck run {prop} --tier quick",
            "check_exit": chk.returncode,
            "violation_signatures": [f"{s} x{n}" for s, n in sigs][:12],
        },
        "valid_seed": valid,
        "caught": caught,
    }
    json.dump(meta_out, open(os.path.join(out, "meta.json"), "w"), indent=1)
    summary.append((name, "valid" if valid else "INVALID", "caught" if caught else "MISSED", chk.returncode, t))
    print(name, "valid" if valid else "INVALID", "caught" if caught else "MISSED", "rc", chk.returncode, t, [s for s, _ in sigs][:3], flush=True)
assert clean()
json.dump(summary, open(os.path.join(VERIF, "seeded", f"{PREFIX}summary.json"), "w"), indent=1)
