#!/bin/sh
# developer tool: run a check against a scratch copy of /repo HEAD with one seeded patch applied (never touches /repo)
# usage: tools/trymut.sh <patch.diff> <PROP> [tier]
set -e
patch=$1; prop=$2; tier=${3:-quick}
d=$(mktemp -d /tmp/mut.XXXXXX)
git -C /repo archive HEAD | tar -x -C "$d"
(cd "$d" && (git apply "$patch" 2>/dev/null || patch -p1 -F3 -s < "$patch"))
here=$(cd "$(dirname "$0")/.." && pwd)
(cd "$here" && SERIF_SRC="$d/src" ./vcheck run "$prop" --tier "$tier" 2>&1 | grep -E "tier=|signature|VIOLATION|HARNESS|Traceback|Error" | head -${LINES_MAX:-14}) || true
rm -rf "$d"
