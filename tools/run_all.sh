#!/bin/bash
# usage: tools/run_all.sh <tier> [checks...]   (developer convenience; prints one line per check)
tier=${1:-quick}; shift
checks=("$@"); [ ${#checks[@]} -eq 0 ] && checks=(C01 C02 C03 C04 C05 C06 C07 C08 C09 C10 C11 C12 C13 C14 C15 C16 C17 C18 C19 C20)
cd "$(dirname "$0")/.." || exit 2
[ -n "$VP_RUN_REPO" ] && export SERIF_SRC="$VP_RUN_REPO/src"
for p in "${checks[@]}"; do
  s=$(date +%s); out=$(./vcheck run $p --tier $tier 2>&1); rc=$?; e=$(date +%s)
  echo "$p tier=$tier rc=$rc $((e-s))s $(echo "$out" | head -1 | cut -c1-160)"
  echo "$out" | grep -A3 '^VIOLATION' | head -12
  echo "$out" | grep -i 'HARNESS' | head -3
done
