#!/usr/bin/env python3
"""Re-run the quick check of every filed seed (seeded/<name>/patch.diff) against the CURRENT /repo HEAD and the CURRENT checks.

usage: tools/revalidate.py [--jobs N] [--only PREFIX] [--write]
Developer tool.  Never touches /repo: every seed gets a scratch copy of `git -C /repo archive HEAD` with the patch applied
(SERIF_SRC points the check at it) and every worker runs ./vcheck from its own snapshot of /verif (so that evidence/ and replays/
of the real tree are not rewritten).  For each seed: applies? / pinned tests still pass? / demo fails with the patch? / check
reports VIOLATION?  With --write the fields `revalidated` of seeded/<name>/meta.json are updated (valid_seed / caught are kept as
filed by keepseed.py unless the patch no longer applies)."""
import concurrent.futures as cf
import json, os, re, shutil, subprocess, sys, tempfile

HERE = os.path.dirname(os.path.dirname(os.path.abspath(__file__)))
args = sys.argv[1:]
jobs = int(args[args.index("--jobs") + 1]) if "--jobs" in args else 3
only = args[args.index("--only") + 1] if "--only" in args else ""
write = "--write" in args


def sh(cmd, cwd=None, env=None, timeout=3600):
    return subprocess.run(cmd, shell=True, cwd=cwd, env=env or os.environ, capture_output=True, text=True, timeout=timeout)


def one(name, snap):
    sd = os.path.join(HERE, "seeded", name)
    meta = json.load(open(os.path.join(sd, "meta.json")))
    prop = meta["property"]
    d = tempfile.mkdtemp(prefix="reval.", dir="/tmp")
    try:
        sh(f"git -C /repo archive HEAD | tar -x -C {d}")
        ok = sh(f"git apply {sd}/patch.diff", d).returncode == 0 or sh(f"patch -p1 -F3 -s < {sd}/patch.diff", d).returncode == 0
        if not ok:
            return name, prop, "does-not-apply", None, None, []
        env = dict(os.environ, PYTHONPATH=f"{d}/src", SERIF_SRC=f"{d}/src")
        t = sh("/venv/bin/python -m pytest -q -p no:cacheprovider --timeout=900 -x 2>&1 | tail -1", d, env).stdout.strip()
        tests_ok = "passed" in t and "failed" not in t and "error" not in t
        demo = sh(f"timeout 300 /venv/bin/python {sd}/demo.py", "/tmp", env).returncode if os.path.exists(f"{sd}/demo.py") else None
        chk = sh(f"./vcheck run {prop} --tier quick", snap, env)
        sigs = re.findall(r"signature: (.*?)  \(x(\d+)\)", chk.stdout)
        caught = chk.returncode == 1 and len(sigs) > 0
        return name, prop, "applies", tests_ok and demo not in (0, None), caught, [f"{s} x{n}" for s, n in sigs][:4]
    finally:
        shutil.rmtree(d, ignore_errors=True)


names = sorted(n for n in os.listdir(os.path.join(HERE, "seeded")) if n.startswith(only) and os.path.exists(os.path.join(HERE, "seeded", n, "patch.diff")))
snaps = []
for j in range(jobs):
    s = tempfile.mkdtemp(prefix=f"verif_snap{j}.", dir="/tmp")
    sh(f"git -C {HERE} archive HEAD | tar -x -C {s}")
    snaps.append(s)
results = []
try:
    with cf.ThreadPoolExecutor(jobs) as ex:
        futs = {}
        import itertools, queue
        free = queue.Queue()
        for s in snaps:
            free.put(s)

        def run(name):
            s = free.get()
            try:
                return one(name, s)
            finally:
                free.put(s)
        for r in ex.map(run, names):
            results.append(r)
            print(*r[:5], r[5][:2], flush=True)
            if write:          # record as we go: a long sweep may be cut short
                name, prop, applies, valid, caught, sigs = r
                mp = os.path.join(HERE, "seeded", name, "meta.json")
                m = json.load(open(mp))
                m["revalidated"] = {"repo_commit": sh("git -C /repo rev-parse --short HEAD").stdout.strip(), "verif_commit": sh(f"git -C {HERE} rev-parse --short HEAD").stdout.strip(),
                                    "applies": applies == "applies", "still_breaks_demo_and_passes_tests": valid, "caught_by_quick_check": caught, "signatures": sigs}
                json.dump(m, open(mp, "w"), indent=1)
finally:
    for s in snaps:
        shutil.rmtree(s, ignore_errors=True)
head = sh("git -C /repo rev-parse --short HEAD").stdout.strip()
vhead = sh(f"git -C {HERE} rev-parse --short HEAD").stdout.strip()
if False:
    for name, prop, applies, valid, caught, sigs in results:
        p = os.path.join(HERE, "seeded", name, "meta.json")
        m = json.load(open(p))
        m["revalidated"] = {"repo_commit": head, "verif_commit": vhead, "applies": applies == "applies", "still_breaks_demo_and_passes_tests": valid,
                            "caught_by_quick_check": caught, "signatures": sigs}
        json.dump(m, open(p, "w"), indent=1)
ap = [r for r in results if r[2] == "applies"]
va = [r for r in ap if r[3]]
print(f"{len(results)} seeds, {len(ap)} apply to {head}, {len(va)} still valid, {sum(1 for r in va if r[4])} of those caught; "
      f"missed: {[r[0] for r in va if not r[4]]}")
