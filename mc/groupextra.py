"""Further designated families for aggregate (C12) and window (C13), each enumerated completely.

grid   : composite keys with MANY distinct values per key column - the full product of small ranges for 2 and 3 key
         columns (every key tuple its own group), in several row orders, each tuple once or twice
floats : value columns of floats whose sum depends on how it is accumulated (0.1 + 0.2 + 0.3, 1e16 + 1 - 1e16), -0.0, bools:
         C12 compares with the reference within the documented tolerance; C13 compares window with the library's own
         aggregate EXACTLY ("the value aggregate would compute for that row's group")
"""
from __future__ import annotations

import hashlib
import itertools

from .core import Agg, V
from .models import canon_elem, obs
from . import groupspace as gs


def orders(tuples):
    n = len(tuples)
    yield "forward", list(tuples)
    yield "reversed", list(reversed(tuples))
    yield "interleaved", [tuples[i] for i in list(range(0, n, 2)) + list(range(1, n, 2))]
    yield "each-twice", [t for t in tuples for _ in (0, 1)]
    yield "whole-twice", list(tuples) + list(tuples)
    yield "rotated", list(tuples[n // 3:]) + list(tuples[:n // 3])


def grid_cases():
    for dims in ((2, 3, 2), (3, 2, 2), (2, 2, 3), (3, 3, 3), (4, 4), (2, 5), (1, 2, 3), (2, 1, 2)):
        tuples = list(itertools.product(*[range(d) for d in dims]))
        for oname, keys in orders(tuples):
            yield dims, oname, keys
        # a strict subset in which some codes of a mixed-radix numbering would coincide if a stride were wrong
        sub = [t for i, t in enumerate(tuples) if i % 3 != 1]
        yield dims, "subset", sub
    # string keys too
    for dims in ((2, 2, 2), (3, 2)):
        tuples = [tuple("abc"[i] for i in t) for t in itertools.product(*[range(d) for d in dims])]
        for oname, keys in orders(tuples):
            yield dims, oname + "-str", keys


def judge_aggregate(agg, site, case, res, keys, vals, menu, nkeys, exact_cols=None):
    groups, outs = gs.ref_aggregate(keys, vals, menu)
    cols = [list(c._underlying) for c in res._underlying]
    if len(cols) != nkeys + len(outs):
        agg.violation(V(site, "wrong-number-of-columns", case, nkeys + len(outs), len(cols)))
        return False
    want_keys = [[g[0][j] for g in groups] for j in range(nkeys)]
    if [list(map(repr, c)) for c in cols[:nkeys]] != [list(map(repr, c)) for c in want_keys]:
        gk = list(zip(*cols[:nkeys])) if cols[:nkeys] else []
        wk = [g[0] for g in groups]
        sym = "groups-not-in-first-appearance-order" if sorted(map(repr, gk)) == sorted(map(repr, wk)) else \
              ("wrong-number-of-groups" if len(gk) != len(wk) else "wrong-group-keys")
        agg.violation(V(site, sym, case, [list(k) for k in wk], [list(k) for k in gk]))
        return False
    for (fn, src, want), got in zip(outs, cols[nkeys:]):
        if len(got) != len(want) or not all(gs.value_close(a, b) for a, b in zip(got, want)):
            agg.violation(V(site, f"wrong-{fn}-values", case, {"fn": fn, "values": want}, got))
            return False
    return True


def judge_window(agg, site, case, res, keys, vals, menu, nkeys):
    groups, outs = gs.ref_aggregate(keys, vals, menu)
    n = len(keys)
    gidx = {r: gi for gi, (_, rows) in enumerate(groups) for r in rows}
    cols = [list(c._underlying) for c in res._underlying]
    if len(cols) != nkeys + len(outs) or any(len(c) != n for c in cols):
        agg.violation(V(site, "wrong-shape", case, [n, nkeys + len(outs)], [[len(c) for c in cols]]))
        return False
    want_keys = [[k[j] for k in keys] for j in range(nkeys)]
    if [list(map(repr, c)) for c in cols[:nkeys]] != [list(map(repr, c)) for c in want_keys]:
        agg.violation(V(site, "key-columns-not-reproduced", case, want_keys, cols[:nkeys]))
        return False
    for (fn, src, gvals), got in zip(outs, cols[nkeys:]):
        want = [gvals[gidx[i]] for i in range(n)]
        if not all(gs.value_close(a, b) for a, b in zip(got, want)):
            agg.violation(V(site, f"wrong-{fn}-values", case, {"fn": fn, "values": want}, got))
            return False
    return True


def fam_grid(agg, h, method):
    for dims, oname, keys in grid_cases():
        nkeys = len(dims)
        n = len(keys)
        vals = [None if i % 5 == 3 else (i % 4) + 1 for i in range(n)]
        agg.states += 1; agg.nontrivial += 1
        for form in gs.FORMS:
            for menu_name in ("all6", "two-unnamed"):
                menu = gs.MENUS[menu_name]
                case = {"family": "grid of composite keys", "dims": list(dims), "order": oname, "rows": n, "form": form, "menu": menu_name, "method": method,
                        "keys": [list(k) for k in keys][:40], "values": vals[:40]}
                site = f"{method}.grid{nkeys}.{form}"
                agg.evals += 1; agg.transitions += 1; agg.compared += 1
                try:
                    t, over = gs.build(keys, vals, nkeys, form)
                    before = obs(t)
                    res = getattr(t, method)(over=over, **gs.build_kwargs(t, vals, menu, form, []))
                except Exception as e:
                    agg.violation(V(site, "raises-" + type(e).__name__, case, None, repr(e)[:100]))
                    continue
                h.update(repr([list(map(repr, c._underlying)) for c in res._underlying]).encode())
                good = (judge_aggregate if method == "aggregate" else judge_window)(agg, site, case, res, keys, vals, menu, nkeys)
                if obs(t) != before:
                    agg.violation(V(site, "input-modified", case))
                elif good:
                    agg.outcomes["grid-agree"] += 1


FLOAT_SETS = [
    [0.1, 0.2, 0.3], [0.1, 0.2, 0.3, 0.4, 0.5, 0.6], [1e16, 1.0, -1e16], [1.0, 1e16, -1e16, 1.0], [-0.0, -0.0], [-0.0, 0.0], [0.1, None, 0.2, 0.3],
    [True, 0.5, False], [True], [3, 0.1, 0.2], [0.1] * 10,
]


def fam_floats(agg, h, method):
    """aggregate against the reference (tolerant); window against the library's own aggregate (exact)"""
    from serif import Table, Vector
    for fl in FLOAT_SETS:
        n = len(fl)
        for kname, keyf in (("one-group", lambda i: "g"), ("two-interleaved", lambda i: "ab"[i % 2]), ("each-own", lambda i: i), ("first-alone", lambda i: 0 if i == 0 else 1)):
            keys = [(keyf(i),) for i in range(n)]
            agg.states += 1; agg.nontrivial += 1
            for fns in (("sum",), ("sum", "mean"), ("sum", "mean", "min", "max", "count", "stdev")):
                case = {"family": "float accumulation", "values": [repr(x) for x in fl], "keys": [k[0] for k in keys], "grouping": kname, "functions": list(fns), "method": method}
                site = f"{method}.floats"
                agg.evals += 1; agg.transitions += 2; agg.compared += 1

                def run(m):
                    t = Table([Vector([k[0] for k in keys], name="k0"), Vector(list(fl), name="v")])
                    return getattr(t, m)(over="k0", **{f"{f}_over": "v" for f in fns})
                try:
                    a = run("aggregate")
                    acols = [list(c._underlying) for c in a._underlying]
                    if method == "aggregate":
                        menu = {f: ["v"] for f in fns}
                        if len({type(x) for x in fl if x is not None}) > 1:
                            agg.skipped["mixed-kind-values-only-compared-window-vs-aggregate"] += 1
                            continue
                        if any(isinstance(x, float) and abs(x) > 1e15 for x in fl if x is not None):
                            agg.skipped["cancellation-case-not-compared-with-the-textbook-sum"] += 1      # sum() and a left fold differ by design there
                            continue
                        if judge_aggregate(agg, site, case, a, keys, list(fl), menu, 1):
                            agg.outcomes["floats-agree"] += 1
                        continue
                    w = run("window")
                    wcols = [list(c._underlying) for c in w._underlying]
                except Exception as e:
                    agg.violation(V(site, "raises-" + type(e).__name__, case, None, repr(e)[:100]))
                    continue
                h.update(repr([list(map(repr, c)) for c in wcols]).encode())
                # window row i == aggregate row of its group, exactly (type and bits)
                gkeys = acols[0]
                bad = None
                for i in range(n):
                    gi = [j for j, k in enumerate(gkeys) if k == keys[i][0] and type(k) is type(keys[i][0])]
                    if len(gi) != 1:
                        bad = ("group-not-found", i)
                        break
                    for c in range(1, len(acols)):
                        if canon_elem(acols[c][gi[0]]) != canon_elem(wcols[c][i]):
                            bad = (fns[c - 1], i, repr(acols[c][gi[0]]), repr(wcols[c][i]))
                            break
                    if bad:
                        break
                if bad:
                    agg.violation(V(site, "window-differs-from-what-aggregate-computes-" + str(bad[0]), case, bad[2] if len(bad) > 2 else None, bad[3] if len(bad) > 3 else None))
                else:
                    agg.outcomes["floats-agree"] += 1


def fam_patterns(agg, h, method):
    """every arrangement of two groups over 5..9 rows (all 2**n key sequences): unevenly spaced group rows, runs, single rows"""
    import itertools as it
    from serif import Table, Vector
    for n in (5, 6, 7, 8, 9):
        vals = [i * i + 1 for i in range(n)]
        vals_n = [None if i % 4 == 1 else v for i, v in enumerate(vals)]
        for bits in it.product("AB", repeat=n):
            keys = [(b,) for b in bits]
            agg.states += 1; agg.nontrivial += 1
            for vv in (vals, vals_n):
                menu = {"sum": ["v"], "min": ["v"], "max": ["v"], "count": ["v"]}
                case = {"family": "every two-group arrangement", "keys": "".join(bits), "values": vv, "method": method}
                agg.evals += 1; agg.transitions += 1; agg.compared += 1
                try:
                    t = Table([Vector([k[0] for k in keys], name="k0"), Vector(list(vv), name="v")])
                    res = getattr(t, method)(over="k0", sum_over="v", min_over="v", max_over="v", count_over="v")
                except Exception as e:
                    agg.violation(V(f"{method}.patterns", "raises-" + type(e).__name__, case, None, repr(e)[:100]))
                    continue
                h.update(repr([list(map(repr, c._underlying)) for c in res._underlying]).encode())
                if (judge_aggregate if method == "aggregate" else judge_window)(agg, f"{method}.patterns", case, res, keys, list(vv), menu, 1):
                    agg.outcomes["patterns-agree"] += 1


def fam_applies(agg, h, method):
    """several custom functions on ONE column in one call: each receives its group's values (None included) in row order, in a
    list of its own - also when an earlier function sorted, reversed or emptied the list it was given; key and value arguments
    given as one-shot iterators (generator, map, iter) mean the same as a list"""
    from serif import Table, Vector
    keysets = [["a", "b", "a", "b", "a"], ["a", "a", "a"], ["b", "a", "b", "a"], ["a", "b", "c"]]
    valsets = [[5, 3, None, 1, 4], [3, 1, 2], [2, None, 1, None], [1, 2, 3]]
    mutators = {"sort": lambda xs: xs.sort(key=lambda x: (x is None, x if x is not None else 0)), "reverse": lambda xs: xs.reverse(), "clear": lambda xs: xs.clear(),
                "append": lambda xs: xs.append(99), "none": lambda xs: None}
    for ks, vs in zip(keysets, valsets):
        keys = [(k,) for k in ks]
        groups = gs.groups_of(keys)
        want_groups = [[vs[i] for i in rows] for _, rows in groups]
        for mname, mut in mutators.items():
            seen = []

            def first(xs, mut=mut):
                mut(xs) if isinstance(xs, list) else None
                return 0

            def second(xs):
                seen.append(list(xs))
                return repr(list(xs))
            agg.evals += 1; agg.transitions += 1; agg.states += 1; agg.nontrivial += 1; agg.compared += 1
            case = {"family": "several custom functions on one column", "keys": ks, "values": vs, "first_function": mname, "method": method}
            try:
                t = Table([Vector(list(ks), name="k0"), Vector(list(vs), name="v")])
                res = getattr(t, method)(over="k0", apply={"one": ("v", first), "two": ("v", second)})
            except Exception as e:
                agg.violation(V(f"{method}.applies", "raises-" + type(e).__name__, case, None, repr(e)[:100]))
                continue
            if sorted(map(repr, seen)) != sorted(map(repr, want_groups)):
                agg.violation(V(f"{method}.applies", "later-function-does-not-get-the-groups-values-in-row-order", case, want_groups, seen))
            else:
                agg.outcomes["applies-agree"] += 1
            # the same with the functions reading DIFFERENT columns (each gets its own column's groups), in both dict orders
            ws = [None if x is None else x * 100 for x in vs][::-1]
            want_w = [[ws[i] for i in rows] for _, rows in groups]
            for order in ("v-first", "w-first"):
                seen_v, seen_w = [], []
                fv = lambda xs: (seen_v.append(list(xs)), 0)[1]
                fw = lambda xs: (seen_w.append(list(xs)), 1)[1]
                ap = {"fv": ("v", fv), "fw": ("w", fw)} if order == "v-first" else {"fw": ("w", fw), "fv": ("v", fv)}
                agg.evals += 1; agg.transitions += 1; agg.compared += 1
                c2 = dict(case, functions_read="different columns", order=order)
                try:
                    t = Table([Vector(list(ks), name="k0"), Vector(list(vs), name="v"), Vector(list(ws), name="w")])
                    getattr(t, method)(over="k0", apply=ap)
                except Exception as e:
                    agg.violation(V(f"{method}.applies", "raises-" + type(e).__name__, c2, None, repr(e)[:100]))
                    continue
                if sorted(map(repr, seen_v)) != sorted(map(repr, want_groups)) or sorted(map(repr, seen_w)) != sorted(map(repr, want_w)):
                    agg.violation(V(f"{method}.applies", "function-receives-another-columns-values", c2, [want_groups, want_w], [seen_v, seen_w]))
                else:
                    agg.outcomes["applies-agree"] += 1
        # one-shot iterables as arguments
        for form in ("generator", "map", "iter", "tuple"):
            for what in ("over", "sum_over", "both"):
                t = Table([Vector(list(ks), name="k0"), Vector([1] * len(ks), name="k1"), Vector(list(vs), name="v"), Vector([x if x is None else x * 2 for x in vs], name="w")])
                mk = {"generator": lambda names: (n_ for n_ in names), "map": lambda names: map(str, names), "iter": lambda names: iter(list(names)), "tuple": lambda names: tuple(names)}[form]
                over = mk(["k0", "k1"]) if what in ("over", "both") else ["k0", "k1"]
                so = mk(["v", "w"]) if what in ("sum_over", "both") else ["v", "w"]
                menu = {"sum": ["v", "wdouble"]}
                agg.evals += 1; agg.transitions += 1; agg.states += 1; agg.nontrivial += 1; agg.compared += 1
                case = {"family": "one-shot iterable arguments", "keys": ks, "values": vs, "argument_form": form, "which": what, "method": method}
                try:
                    res = getattr(t, method)(over=over, sum_over=so)
                    ref = getattr(t, method)(over=["k0", "k1"], sum_over=["v", "w"])
                except Exception as e:
                    agg.violation(V(f"{method}.iterargs", "raises-" + type(e).__name__, case, None, repr(e)[:100]))
                    continue
                a = [(c._name, list(c._underlying)) for c in res._underlying]
                b = [(c._name, list(c._underlying)) for c in ref._underlying]
                if a != b:
                    agg.violation(V(f"{method}.iterargs", "one-shot-iterable-argument-means-something-else-than-the-list", case, b, a))
                else:
                    agg.outcomes["iterargs-agree"] += 1


def fam_tuplekeys(agg, h, method):
    """ONE key column whose values are tuples (year-month pairs, the empty tuple, nested tuples, None): a key value is reproduced
    as it is, never unpacked; also composite keys one of whose components is a tuple"""
    from serif import Table, Vector
    keysets = [[(2023, 1), (2023, 2), (2023, 1), (2024, 1)], [(), (1,), (), (1,)], [(1, (2, 3)), (1, (2, 4)), (1, (2, 3))], [(1, 2), None, (1, 2), None], [("a", "b"), ("a",), ("a", "b")]]
    for ks in keysets:
        n = len(ks)
        vals = [None if i == 2 else i + 1 for i in range(n)]
        for nkeys in (1, 2):
            keys = [(k,) for k in ks] if nkeys == 1 else [(k, i % 2) for i, k in enumerate(ks)]
            for form in ("name", "external"):
                agg.evals += 1; agg.transitions += 1; agg.states += 1; agg.nontrivial += 1; agg.compared += 1
                menu = {"sum": ["v"], "count": ["v"], "max": ["v"]}
                case = {"family": "tuple-valued keys", "keys": [repr(k) for k in keys], "values": vals, "form": form, "method": method}
                try:
                    kcols = [Vector([k[j] for k in keys], name=f"k{j}") for j in range(nkeys)]
                    t = Table((kcols if form == "name" else []) + [Vector(list(vals), name="v")])
                    over = [f"k{j}" for j in range(nkeys)] if form == "name" else [Vector([k[j] for k in keys]) for j in range(nkeys)]
                    res = getattr(t, method)(over=over if nkeys > 1 else over[0], sum_over="v", count_over="v", max_over="v")
                except Exception as e:
                    agg.violation(V(f"{method}.tuplekeys", "raises-" + type(e).__name__, case, None, repr(e)[:100]))
                    continue
                h.update(repr([list(map(repr, c._underlying)) for c in res._underlying]).encode())
                if (judge_aggregate if method == "aggregate" else judge_window)(agg, f"{method}.tuplekeys", case, res, keys, list(vals), menu, nkeys):
                    agg.outcomes["tuplekeys-agree"] += 1


def fam_calls(agg, h, method):
    """two calls on the SAME table object with related key lists (the other order, a key twice, a sub-list, external vectors that
    are the table's own columns): the second answer is the answer a freshly built table gives"""
    from serif import Table, Vector
    data = {"a": ["x", "y", "x", "y", "x"], "b": [1, 1, 2, 2, 1], "v": [10, 20, None, 40, 50]}
    overs = [["a", "b"], ["b", "a"], ["a"], ["b"], ["a", "a"], ["b", "a", "b"]]
    kws = [dict(sum_over="v"), dict(count_over="v", max_over="v")]
    for o1 in overs:
        for o2 in overs:
            for kw1 in kws:
                for kw2 in kws:
                    for form in ("name", "column"):
                        agg.evals += 1; agg.transitions += 3; agg.states += 1; agg.nontrivial += 1; agg.compared += 1
                        case = {"family": "two calls on the same table", "first_over": o1, "second_over": o2, "first": sorted(kw1), "second": sorted(kw2), "form": form, "method": method}

                        def ov(t, o):
                            r = list(o) if form == "name" else [t[n_] for n_ in o]
                            return r if len(r) > 1 else r[0]
                        try:
                            t = Table({k: list(v) for k, v in data.items()})
                            try:
                                getattr(t, method)(over=ov(t, o1), **kw1)
                            except Exception:
                                pass
                            try:
                                got = getattr(t, method)(over=ov(t, o2), **kw2)
                                got = [(c._name, [repr(x) for x in c._underlying]) for c in got._underlying]
                            except Exception as e:
                                got = "raises-" + type(e).__name__
                            f = Table({k: list(v) for k, v in data.items()})
                            try:
                                want = getattr(f, method)(over=ov(f, o2), **kw2)
                                want = [(c._name, [repr(x) for x in c._underlying]) for c in want._underlying]
                            except Exception as e:
                                want = "raises-" + type(e).__name__
                        except Exception as e:
                            agg.violation(V(f"{method}.calls", "raises-" + type(e).__name__, case, None, repr(e)[:100]))
                            continue
                        if got != want:
                            agg.violation(V(f"{method}.calls", "second-call-differs-from-a-fresh-table", case, want, got))
                        else:
                            agg.outcomes["calls-agree"] += 1


class _Boom(Exception):
    pass


def fam_stateful(agg, h, method):
    """custom functions that are NOT pure: they raise on some group (TypeError / ValueError / a class of their own - at a group
    holding None, at the n-th call), or number their calls from a shared counter.
    aggregate: the exception reaches the caller, and no group has been handed to the function twice before it does ("exactly once");
    window   : given fresh functions of the same kind, window's values equal aggregate's values joined back to the rows, and it
               fails with the same exception class when aggregate fails."""
    from serif import Table, Vector
    keysets = [["a", "b", "a", "b", "a"], ["a", "a", "b"], ["b", "a", "b", "a"], ["a", "b", "c"], ["a", "a", "b", "b", "b"], ["a", "a", "a"]]
    valsets = [[5, 3, None, 1, 4], [3, None, 2], [2, None, 1, None], [1, 2, 3], [2, 1, 3, 5, 4], [1, 2, 3]]
    excs = {"TypeError": TypeError, "ValueError": ValueError, "KeyError": KeyError, "own-class": _Boom}

    def fresh(kind, exc, calls):
        """one or two functions of the named kind, recording into `calls`"""
        state = {"n": 0}
        if kind == "raises-on-None":
            def f(xs):
                calls.append(("f", list(xs)))
                if any(x is None for x in xs):
                    raise exc("no None please")
                return len(list(xs))
            return {"r": ("v", f)}
        if kind == "raises-on-2nd-call":
            def f(xs):
                calls.append(("f", list(xs)))
                state["n"] += 1
                if state["n"] == 2:
                    raise exc("second call")
                return state["n"]
            return {"r": ("v", f)}
        if kind == "python-max":          # the builtin itself: max([3, None]) raises TypeError
            def f(xs):
                calls.append(("f", list(xs)))
                return max(xs)
            return {"r": ("v", f)}
        if kind == "shared-counter":
            def f(xs):
                calls.append(("f", list(xs))); state["n"] += 1
                return state["n"]

            def g(xs):
                calls.append(("g", list(xs))); state["n"] += 1
                return state["n"] * 100
            return {"first": ("v", f), "second": ("v", g)}
        if kind == "container-sensitive":       # the result depends on WHAT kind of sequence the function is handed
            def f(xs):
                calls.append(("f", list(xs)))
                clean = [x for x in xs if x is not None]
                return f"{type(xs).__name__}:{xs[:2]!r}:{xs == sorted(clean) if len(clean) == len(xs) else None}"
            return {"r": ("v", f)}
        if kind == "returns-pair":              # a (low, high) pair is ONE value - also for a group of exactly two rows
            def f(xs):
                calls.append(("f", list(xs)))
                clean = [x for x in xs if x is not None]
                return (min(clean), max(clean)) if clean else (None, None)
            return {"r": ("v", f)}
        if kind == "returns-the-values":        # a list as long as the group is ONE value, too
            def f(xs):
                calls.append(("f", list(xs)))
                return [0 if x is None else x for x in xs]
            return {"r": ("v", f)}
        if kind == "returns-triple":
            def f(xs):
                calls.append(("f", list(xs)))
                return (len(list(xs)), 1, 2)
            return {"r": ("v", f)}
        if kind == "two-that-fail-on-different-groups":
            def f(xs):
                calls.append(("f", list(xs)))
                if len(calls) and list(xs) and list(xs)[0] == vs_first_of_second_group[0]:
                    raise TypeError("f fails on the second group")
                return 1

            def g(xs):
                calls.append(("g", list(xs)))
                if list(xs) and list(xs)[0] == vs_first_of_first_group[0]:
                    raise ValueError("g fails on the first group")
                return 2
            return {"first": ("v", f), "second": ("v", g)}
        raise KeyError(kind)

    for ks, vs in zip(keysets, valsets):
        keys = [(k,) for k in ks]
        groups = gs.groups_of(keys)
        gvals = [[vs[i] for i in rows] for _, rows in groups]
        vs_first_of_first_group = [gvals[0][0]]
        vs_first_of_second_group = [gvals[1][0]] if len(gvals) > 1 else [object()]
        plans = [("raises-on-None", n_) for n_ in excs] + [("raises-on-2nd-call", n_) for n_ in excs] + [("python-max", "TypeError"), ("shared-counter", None),
                 ("two-that-fail-on-different-groups", None), ("container-sensitive", None), ("returns-pair", None), ("returns-the-values", None), ("returns-triple", None)]
        for kind, en in plans:
            exc = excs.get(en, TypeError)
            case = {"family": "custom functions that raise or count their calls", "keys": ks, "values": vs, "functions": kind, "exception": en, "method": method}
            agg.evals += 1; agg.transitions += 2; agg.states += 1; agg.nontrivial += 1; agg.compared += 1

            def run(meth):
                calls = []
                t = Table([Vector(list(ks), name="k0"), Vector(list(vs), name="v")])
                try:
                    res = getattr(t, meth)(over="k0", apply=fresh(kind, exc, calls))
                    out = ("ok", [(c._name, list(c._underlying)) for c in res._underlying])
                except Exception as e:
                    out = ("raises", type(e).__name__)
                return out, calls
            a_out, a_calls = run("aggregate")
            if method == "aggregate":
                # which groups does a correct aggregate hand to f before the exception (if any) stops it: every group at most once
                per_fn = {}
                for fn, xs in a_calls:
                    per_fn.setdefault(fn, []).append(xs)
                twice = [(fn, xs) for fn, lst in per_fn.items() for xs in lst if lst.count(xs) > [g for g in gvals].count(xs)]
                not_groups = [(fn, xs) for fn, xs in a_calls if xs not in gvals]
                must_raise = None
                if kind == "raises-on-None" and any(None in g for g in gvals):
                    must_raise = exc.__name__
                elif kind == "raises-on-2nd-call" and len(gvals) >= 2:
                    must_raise = exc.__name__
                elif kind == "python-max" and any(None in g and len(g) > 1 for g in gvals):
                    must_raise = "TypeError"
                if not_groups:
                    agg.violation(V("aggregate.stateful", "function-called-with-something-that-is-not-a-groups-values", case, gvals, not_groups[:3]))
                elif twice:
                    agg.violation(V("aggregate.stateful", "function-called-twice-for-one-group", case, gvals, a_calls))
                elif must_raise and a_out != ("raises", must_raise):
                    agg.violation(V("aggregate.stateful", "exception-of-the-custom-function-does-not-reach-the-caller", case, ("raises", must_raise), a_out))
                elif kind == "shared-counter" and a_out[0] != "ok":
                    agg.violation(V("aggregate.stateful", "raises", case, "ok", a_out))
                else:
                    agg.outcomes["stateful-agree"] += 1
                continue
            w_out, w_calls = run("window")
            if a_out[0] == "raises" or w_out[0] == "raises":
                if a_out != w_out:
                    agg.violation(V("window.stateful", "fails-differently-from-aggregate", case, a_out, w_out))
                else:
                    agg.outcomes["stateful-agree"] += 1
                continue
            # aggregate joined back to the rows
            acols = dict(a_out[1])
            gkeys = acols["k0"]
            want = []
            for nm, col in a_out[1]:
                if nm == "k0":
                    continue
                want.append((nm, [col[gkeys.index(k)] for k in ks]))
            got = [(nm, col) for nm, col in w_out[1] if nm not in ("k0", "v")]
            if got != want:
                agg.violation(V("window.stateful", "values-differ-from-aggregate-joined-back", case, want, got))
            else:
                agg.outcomes["stateful-agree"] += 1


def fam_numerics(agg, h, method):
    """value columns of the less common numeric types - Fraction, Decimal, complex: sum / mean / min / max / count are the exact
    textbook values IN THAT TYPE (a Fraction mean is a Fraction, not a rounded float); every arrangement of 3 values + None over
    every grouping of <= 3 rows into two keys.  window is compared with aggregate joined back."""
    from fractions import Fraction as F
    from decimal import Decimal as D
    from serif import Table, Vector
    palettes = {"Fraction": [F(1, 3), F(5, 2), F(1, 7), None], "Decimal": [D("0.5"), D("2.25"), D("0.1"), None], "complex": [1 + 2j, 3j, 2 + 0j, None]}
    fns = {"sum": lambda c: sum(c[1:], c[0]) if c else 0, "mean": lambda c: (sum(c[1:], c[0]) / len(c)) if c else None,
           "min": lambda c: min(c) if c else None, "max": lambda c: max(c) if c else None, "count": lambda c: len(c)}
    for tname, pal in palettes.items():
        for n in (1, 2, 3):
            for vals in itertools.product(pal, repeat=n):
                for ks in itertools.product(["a", "b"], repeat=n):
                    if ks[0] != "a":
                        continue
                    groups = gs.groups_of([(k,) for k in ks])
                    agg.states += 1
                    for fn, ref in fns.items():
                        if tname == "complex" and fn in ("min", "max"):
                            continue
                        case = {"family": "Fraction / Decimal / complex values", "type": tname, "keys": list(ks), "values": [repr(v) for v in vals], "function": fn, "method": method}
                        agg.evals += 1; agg.transitions += 1; agg.compared += 1
                        if None in vals:
                            agg.nontrivial += 1
                        want = [ref([vals[i] for i in rows if vals[i] is not None]) for _, rows in groups]
                        try:
                            t = Table([Vector(list(ks), name="k0"), Vector(list(vals), name="v")])
                            a = list(t.aggregate(over="k0", **{fn + "_over": "v"})._underlying[-1]._underlying)
                            w = list(t.window(over="k0", **{fn + "_over": "v"})._underlying[-1]._underlying) if method == "window" else None
                        except Exception as e:
                            if all(v is None for v in vals):
                                agg.skipped["all-None-column-of-unknown-type"] += 1
                                continue
                            agg.violation(V(f"{method}.numerics", "raises-" + type(e).__name__, case, [repr(x) for x in want], repr(e)[:100]))
                            continue
                        if method == "aggregate":
                            if [repr(x) for x in a] != [repr(x) for x in want]:
                                agg.violation(V("aggregate.numerics", "not-the-exact-textbook-value-in-the-columns-own-type", case, [repr(x) for x in want], [repr(x) for x in a]))
                            else:
                                agg.outcomes["numerics-agree"] += 1
                        else:
                            gk = [k for (k,), _ in groups]
                            back = [a[gk.index(k)] for k in ks]
                            if [repr(x) for x in w] != [repr(x) for x in back]:
                                agg.violation(V("window.numerics", "values-differ-from-aggregate-joined-back", case, [repr(x) for x in back], [repr(x) for x in w]))
                            else:
                                agg.outcomes["numerics-agree"] += 1


FAMILIES = {"numerics": fam_numerics, "stateful": fam_stateful, "grid": fam_grid, "floats": fam_floats, "patterns": fam_patterns, "applies": fam_applies, "tuplekeys": fam_tuplekeys, "calls": fam_calls}


def run_extra_unit(unit, method):
    _, fam = unit[:2]
    agg = Agg()
    h = hashlib.sha256()
    FAMILIES[fam](agg, h, method)
    agg.digests[repr(unit) + method] = h.hexdigest()
    agg.sample({"family": fam})
    return agg
