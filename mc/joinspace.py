"""Shared input space and reference model for the join properties C09, C10, C11."""
from __future__ import annotations

import hashlib
import itertools
from datetime import date

from .core import Agg, V
from .models import canon_elem, obs

D1, D2 = date(2020, 1, 1), date(2021, 6, 15)

# key alphabets: 3 symbols each; 'intc' = ints whose hash() collide (-1, -2) - a hash join must still tell them apart
KEY_ALPHA = {
    "int": [0, 2, None],          # 0 and '' are keys like any other (falsy values must not be taken for "missing")
    "str": ["", "b", None],
    "intc": [-1, -2, None],
    "bool": [True, False, None],
    "date": [D1, D2, None],
    "obj": [1, "1", None],        # mixed kinds: an object-dtype key column (hashability validation path)
}
# table layouts: (left column order, right column order); 'k*' are key columns, others payload
CONFIGS = {
    "std": {"lpay": ["lp"], "rpay": ["rp"], "lkey_first": True, "rkey_name_same": True},
    "wide": {"lpay": ["lp", "lq"], "rpay": [], "lkey_first": False, "rkey_name_same": False},
    # look-alike decoy columns ('K0' before the real key 'k0'): a key given by NAME means the column stored under exactly that name
    "decoy": {"lpay": ["lp"], "rpay": ["rp"], "lkey_first": True, "rkey_name_same": True, "decoy": True},
}
FORMS = ("name", "column", "external")


def key_lists(kind, nkeys, nrows):
    """Every list of nrows key tuples over the alphabet."""
    alpha = KEY_ALPHA[kind]
    tuples = list(itertools.product(alpha, repeat=nkeys))
    return itertools.product(tuples, repeat=nrows)


def count_key_lists(kind, nkeys, nrows):
    return (len(KEY_ALPHA[kind]) ** nkeys) ** nrows


def build_side(side, keys, nkeys, config, form, variant=None):
    """Return (table, on_spec, model_columns) for one side.
    model_columns = [(name, [values])] in table column order.
    variant: index into provenance.TABLE_ROUTES (the table is then built through that route) or None (direct)."""
    from serif import Table, Vector
    cfg = CONFIGS[config]
    n = len(keys)
    pay_names = cfg["lpay"] if side == "L" else cfg["rpay"]
    base = 100 if side == "L" else 200
    pays = [(nm, [base + 10 * pi + i for i in range(n)]) for pi, nm in enumerate(pay_names)]
    if side == "L":
        knames = [f"k{j}" for j in range(nkeys)]
    else:
        knames = [f"k{j}" for j in range(nkeys)] if cfg["rkey_name_same"] else [f"j{j}" for j in range(nkeys)]
    kcols = [(knames[j], [kt[j] for kt in keys]) for j in range(nkeys)]
    if form == "external":
        cols = pays if pays else [("only", [base + i for i in range(n)])]
    elif cfg.get("decoy"):
        decoys = [(knames[j].upper(), [kt[j] for kt in reversed(keys)]) for j in range(nkeys)]      # same kind, other row order
        cols = decoys + kcols + pays
    elif (side == "L" and cfg["lkey_first"]) or side == "R":
        cols = kcols + pays
    else:
        cols = pays[:1] + kcols + pays[1:]
    if variant is None or not cols:
        t = Table([Vector(list(vals), name=nm) for nm, vals in cols])
    else:
        from . import provenance
        _, t = provenance.table_variant(cols, variant, flagged=True)
    if form == "name":
        on = [nm for nm, _ in kcols]
    elif form == "column":
        on = [t[nm] for nm, _ in kcols]
    else:
        on = [Vector(list(vals)) for _, vals in kcols]
    if nkeys == 1:
        on = on[0]
    return t, on, cols


def rows_of(cols):
    n = len(cols[0][1]) if cols else 0
    return [tuple(c[1][i] for c in cols) for i in range(n)]


def ref_pairs(lkeys, rkeys):
    return [(i, j) for i, lk in enumerate(lkeys) for j, rk in enumerate(rkeys) if lk == rk]


def ref_inner(lcols, rcols, lkeys, rkeys):
    lr, rr = rows_of(lcols), rows_of(rcols)
    return [lr[i] + rr[j] for i, j in ref_pairs(lkeys, rkeys)]


def ref_left(lcols, rcols, lkeys, rkeys):
    lr, rr = rows_of(lcols), rows_of(rcols)
    out = []
    pad = (None,) * len(rcols)
    for i, lk in enumerate(lkeys):
        ms = [j for j, rk in enumerate(rkeys) if lk == rk]
        if ms:
            out += [lr[i] + rr[j] for j in ms]
        else:
            out.append(lr[i] + pad)
    return out


def ref_full(lcols, rcols, lkeys, rkeys):
    out = ref_left(lcols, rcols, lkeys, rkeys)
    rr = rows_of(rcols)
    pad = (None,) * len(lcols)
    matched = {j for _, j in ref_pairs(lkeys, rkeys)}
    for j in range(len(rkeys)):
        if j not in matched:
            out.append(pad + rr[j])
    return out


REF = {"inner_join": ref_inner, "join": ref_left, "full_join": ref_full}


def result_rows(res):
    cols = [c._underlying for c in res._underlying]
    if not cols:
        return []
    return [tuple(c[i] for c in cols) for i in range(len(cols[0]))]


def canon_rows(rows):
    return [tuple(canon_elem(x) for x in r) for r in rows]


def unique(keys):
    return len(set(keys)) == len(keys)


def classify_rows(got, want):
    """Symptom from the shape of the disagreement between two row lists."""
    cg, cw = canon_rows(got), canon_rows(want)
    if cg == cw:
        return None
    if sorted(cg) == sorted(cw):
        return "wrong-row-order"
    sg, sw = set(cg), set(cw)
    if len(cg) < len(cw) and sg <= sw:
        return "missing-rows"
    if len(cg) > len(cw) and sw <= sg:
        return "extra-rows"
    if len(cg) == len(cw):
        return "wrong-cells"
    return "wrong-rows"


def digest_update(h, rows):
    h.update(repr(canon_rows(rows)).encode())


def describe_case(kind, nkeys, config, form, lkeys, rkeys, method, expect):
    return {"kind": kind, "nkeys": nkeys, "config": config, "form": form,
            "left_keys": [list(k) for k in lkeys], "right_keys": [list(k) for k in rkeys],
            "method": method, "expect": expect}


def py_repro(lcols, rcols, lkeys, rkeys, nkeys, form, method, expect):
    def tb(cols):
        return "Table([" + ", ".join(f"Vector({vals!r}, name={nm!r})" for nm, vals in cols) + "])"
    if form == "external":
        lon = [f"Vector({[k[j] for k in lkeys]!r})" for j in range(nkeys)]
        ron = [f"Vector({[k[j] for k in rkeys]!r})" for j in range(nkeys)]
        lo = lon[0] if nkeys == 1 else "[" + ", ".join(lon) + "]"
        ro = ron[0] if nkeys == 1 else "[" + ", ".join(ron) + "]"
    else:
        ln = [nm for nm, _ in lcols if nm.startswith("k")]
        rn = [nm for nm, _ in rcols if nm[0] in "kj"]     # (decoy columns are upper-case and not key names)
        lo = repr(ln[0] if nkeys == 1 else ln)
        ro = repr(rn[0] if nkeys == 1 else rn)
    return ("from serif import Table, Vector\nfrom datetime import date\n"
            f"L = {tb(lcols)}\nR = {tb(rcols)}\n"
            f"res = L.{method}(R, left_on={lo}, right_on={ro}, expect={expect!r})\n"
            "print([tuple(r) for r in res])")


def plan_units(thorough):
    """Work units (kind, nkeys, config, forms, left_rows, max_right_rows)."""
    units = []
    if not thorough:
        for kind in KEY_ALPHA:
            for config in CONFIGS:
                if config == "decoy":
                    if kind in ("int", "str"):
                        for nl in range(0, 3):
                            units.append((kind, 1, config, ("name", "column"), nl, 2))
                    continue
                for nl in range(0, 4):
                    units.append((kind, 1, config, FORMS, nl, 3))
        for kind in ("int", "str"):
            for nl in range(0, 3):
                units.append((kind, 2, "std", FORMS, nl, 2))
    else:
        for kind in KEY_ALPHA:
            for config in CONFIGS:
                if config == "decoy":
                    for nl in range(0, 4):
                        units.append((kind, 1, config, ("name", "column"), nl, 3))
                    continue
                for nl in range(0, 5):
                    units.append((kind, 1, config, FORMS, nl, 4))
        for kind in ("int", "str", "intc"):
            for nl in range(0, 4):
                # split the big level by first left key tuple to balance load
                units.append((kind, 2, "std", FORMS if nl < 3 else ("name", "external"), nl, 3))
        for nl in range(0, 3):
            units.append(("int", 3, "std", ("name",), nl, 2))
    return units


def all_dtype_rejected(lkeys, rkeys, nkeys):
    """A key column that is entirely None on one side (non-empty) but typed on the other is rejected by the
    library's documented dtype-agreement validation; such pairs are not judged."""
    for j in range(nkeys):
        lcol = [k[j] for k in lkeys]
        rcol = [k[j] for k in rkeys]
        if not lcol or not rcol:
            continue
        ln = all(x is None for x in lcol)
        rn = all(x is None for x in rcol)
        if ln != rn:
            return True
        if not ln:
            from .models import join_kinds
            lk = join_kinds(type(x) for x in lcol if x is not None)
            rk = join_kinds(type(x) for x in rcol if x is not None)
            if lk is not rk:
                return True      # e.g. [1] against [1, '1']: int versus object - refused by the dtype-agreement validation
    return False


def cases(unit):
    """unit = (kind, nkeys, config, forms, nl, maxr[, first]); `first` (an index into the key tuples) restricts the unit to the left
    key lists that start with that tuple - a way of splitting one large unit over several workers, nothing is dropped"""
    kind, nkeys, config, forms, nl, maxr = unit[:6]
    first = unit[6] if len(unit) > 6 else None
    tuples = list(itertools.product(KEY_ALPHA[kind], repeat=nkeys))
    for lkeys in key_lists(kind, nkeys, nl):
        if first is not None and nl > 0 and lkeys[0] != tuples[first]:
            continue
        for nr in range(0, maxr + 1):
            for rkeys in key_lists(kind, nkeys, nr):
                yield list(lkeys), list(rkeys)


# ------------------------------------------------------------------------------------------
# histories: join, edit a key cell in place (every write path), join again  ("non-initial states")
# ------------------------------------------------------------------------------------------
WRITE_PATHS = ("cell", "view", "replace", "cell2", "view2")


def hist_cases(kind, maxrows=2):
    alpha = KEY_ALPHA[kind]
    for nl in range(0, maxrows + 1):
        for lkeys in key_lists(kind, 1, nl):
            for nr in range(0, maxrows + 1):
                for rkeys in key_lists(kind, 1, nr):
                    for side, keys in (("L", lkeys), ("R", rkeys)):
                        for idx in range(len(keys)):
                            for new in alpha:
                                if new == keys[idx][0]:
                                    continue
                                for path in WRITE_PATHS:
                                    yield list(lkeys), list(rkeys), side, idx, new, path


def apply_mutation(table, kname, idx, new, path):
    from serif import Vector
    if path in ("cell2", "view2"):
        # two in-place writes in a row (an intermediate value first): the key column's storage is swapped twice
        cur = table[kname]._underlying[idx]
        inter = [x for x in (table[kname]._underlying + (new,)) if x is not None and x != new]
        apply_mutation(table, kname, idx, inter[0] if inter else new, path[:-1])
        apply_mutation(table, kname, idx, new, path[:-1])
        return
    if path == "cell":
        table[idx, kname] = new
    elif path == "view":
        table[kname][idx] = new
    else:
        vals = list(table[kname]._underlying)
        vals[idx] = new
        setattr(table, kname, Vector(vals))


def run_hist_unit(unit, methods):
    """unit = ('hist', kind, form[, allocator policy]).  For every case: op, mutate, op again; both results vs the model."""
    _, kind, form = unit[:3]
    agg = Agg()
    if len(unit) > 3 and unit[3] != "fresh":
        from . import core
        core.reset_globals(unit[3])
    h = hashlib.sha256()
    for lkeys, rkeys, side, idx, new, path in hist_cases(kind):
        hist_one(agg, h, kind, form, methods, lkeys, rkeys, side, idx, new, path)
    agg.digests[repr(unit) + repr(methods)] = h.hexdigest()
    agg.sample({"history": ["join", "write key cell via cell/view/replace", "join again"], "kind": kind, "form": form})
    return agg


def hist_one(agg, h, kind, form, methods, lkeys, rkeys, side, idx, new, path):
        lk2 = [tuple(k) for k in lkeys]
        rk2 = [tuple(k) for k in rkeys]
        tgt = lk2 if side == "L" else rk2
        tgt[idx] = (new,)
        agg.states += 1
        agg.nontrivial += 1
        for method in methods:
            case = describe_case(kind, 1, "std", form, lkeys, rkeys, method, "many_to_many")
            case.update({"history": ["join", f"write {side}.k0[{idx}]={new!r} via {path}", "join again"],
                         "hist": [side, idx, new, path]})
            try:
                L, lon, lcols = build_side("L", lkeys, 1, "std", form)
                R, ron, rcols = build_side("R", rkeys, 1, "std", form)
                if all_dtype_rejected(lkeys, rkeys, 1) or all_dtype_rejected(lk2, rk2, 1):
                    agg.skipped["all-None-vs-typed-key-column"] += 1
                    continue
                agg.evals += 1
                res1 = getattr(L, method)(R, left_on=lon, right_on=ron, expect="many_to_many")
                agg.transitions += 1
                want1 = REF[method](lcols, rcols, lkeys, rkeys)
                sym = classify_rows(result_rows(res1), want1)
                agg.compared += 1
                if sym:
                    agg.violation(V(f"{method}.{form}", sym, case, want1, result_rows(res1)))
                    continue
                T = L if side == "L" else R
                apply_mutation(T, "k0", idx, new, path)
                agg.transitions += 1
                # model after the write
                cols = lcols if side == "L" else rcols
                cols2 = [(nm, [k[0] for k in tgt]) if nm == "k0" else (nm, vals) for nm, vals in cols]
                lc2 = cols2 if side == "L" else lcols
                rc2 = cols2 if side == "R" else rcols
                if form == "column":
                    lon, ron = L["k0"], R["k0"]
                res2 = getattr(L, method)(R, left_on=lon, right_on=ron, expect="many_to_many")
                agg.transitions += 1
                want2 = REF[method](lc2, rc2, lk2, rk2)
                got2 = result_rows(res2)
                digest_update(h, got2)
                agg.compared += 2
                sym = classify_rows(got2, want2)
                if sym:
                    stale = classify_rows(got2, want1) is None
                    agg.violation(V(f"{method}.after-write.{path}", "stale-result-of-earlier-join" if stale else sym, case, want2, got2))
                    agg.outcomes["hist-mismatch"] += 1
                else:
                    agg.outcomes["hist-agree"] += 1
                if classify_rows(result_rows(res1), want1):
                    agg.violation(V(f"{method}.after-write.{path}", "earlier-result-changed", case, want1, result_rows(res1)))
            except Exception as e:
                agg.violation(V(f"{method}.after-write.{path}", "raises-" + type(e).__name__, case, None, repr(e)[:120]))


# ------------------------------------------------------------------------------------------
# larger, structured inputs (size thresholds: hash-set/dict internals change behaviour at 8+ entries)
# ------------------------------------------------------------------------------------------
def big_cases():
    """(left keys, right keys) as lists of 1-tuples of ints; a designated finite family, enumerated completely"""
    for n in (9, 10, 12):
        rk = [(x,) for x in range(n)]
        for i, j in itertools.combinations(range(n), 2):
            matched = [(x,) for x in range(n) if x not in (i, j)]
            yield matched, rk                              # right rows i and j stay unmatched
            yield matched[::-1] + [matched[0]], rk         # other order, one repeated left key
        for i in range(n):
            yield [(x,) for x in range(n) if x != i] + [(n + 5,)], rk      # one unmatched on each side
    for n in (9, 11):
        yield [(k % 4,) for k in range(n)], [(k % 3,) for k in range(n)]
        yield [(k % 3,) for k in range(4)], [((k * 5) % 7,) for k in range(n)]
        yield [(None if k % 4 == 0 else k % 3,) for k in range(n)], [(None if k % 5 == 0 else k % 4,) for k in range(n)]


def run_big_unit(unit, methods):
    _, part = unit
    agg = Agg()
    h = hashlib.sha256()
    for ci, (lkeys, rkeys) in enumerate(big_cases()):
        if ci % 4 != part:
            continue
        agg.states += 1
        agg.nontrivial += 1
        for method in methods:
            for form in ("name", "external"):
                case = describe_case("int", 1, "std", form, lkeys, rkeys, method, "many_to_many")
                case["family"] = "larger structured inputs"
                try:
                    L, lon, lcols = build_side("L", lkeys, 1, "std", form, variant=ci)
                    R, ron, rcols = build_side("R", rkeys, 1, "std", form, variant=ci // 3)
                    res = getattr(L, method)(R, left_on=lon, right_on=ron, expect="many_to_many")
                except Exception as e:
                    agg.violation(V(f"{method}.{form}.big", "raises-" + type(e).__name__, case, None, repr(e)[:100]))
                    continue
                agg.evals += 1; agg.transitions += 1; agg.compared += 1
                want = REF[method](lcols, rcols, lkeys, rkeys)
                got = result_rows(res)
                digest_update(h, got)
                sym = classify_rows(got, want)
                if sym:
                    agg.violation(V(f"{method}.{form}.big", sym, case, want, got))
                else:
                    agg.outcomes["big-agree"] += 1
    agg.digests[repr(unit) + repr(methods)] = h.hexdigest()
    agg.sample({"family": "larger structured inputs", "sizes": [9, 10, 11, 12]})
    return agg
