"""Engine H — explicit-state exploration of operation histories on the real objects (DESIGN §3).

A state is represented by the event history that reaches it; live objects are never copied.
To visit a transition the history is re-executed from scratch on fresh objects (globals reset,
virtual allocator installed), the event is applied, the driver's monitor compares the observation
before and after, and a canonical form of the reached heap is hashed for deduplication.
"""
from __future__ import annotations

import hashlib
import sys

from . import core, valloc
from .core import Agg, V
from .models import canon_elem, is_table


class Slot:
    __slots__ = ("kind", "obj", "token", "coltokens", "meta")

    def __init__(self, kind, obj, token=None, coltokens=None, meta=None):
        self.kind = kind          # 'vec' | 'tab' | 'col' | 'tup'
        self.obj = obj
        self.token = token
        self.coltokens = coltokens
        self.meta = meta or {}


class World:
    def __init__(self):
        self.slots = []
        self.limbo = []           # dropped but not yet collected (C15)
        self.counter = 0          # fresh-value / fresh-token source
        self.alloc = None
        self.choices = []         # environment choices consumed so far
        self.extra = {}

    def fresh(self):
        self.counter += 1
        return self.counter


def detach(e):
    """An exception of the same class and arguments WITHOUT traceback.  The harness must never keep the original: its
    traceback references the catching frame, whose local would reference the exception again - a cycle that (with the
    cyclic collector switched off) would keep every object in those frames alive and falsify liveness."""
    if e is None:
        return None
    try:
        n = type(e)(*e.args)
    except Exception:
        n = Exception(f"{type(e).__name__}: {e}")
    return n


class Outcome:
    __slots__ = ("targets", "raised", "new", "readonly", "note")

    def __init__(self, targets=(), raised=None, new=None, readonly=False, note=None):
        self.targets = set(targets)
        self.raised = detach(raised)
        self.new = new
        self.readonly = readonly
        self.note = note


# ------------------------------------------------------------------------------------------
# canonical heap form
# ------------------------------------------------------------------------------------------

def canon_world(world, registry_mode="current", refcounts=False):
    """Canonical, hashable image of everything a future operation can read (addresses replaced by
    first-visit indices).  registry_mode: 'current' = owners registered under each object's current
    storage identity; 'full' = whole registry incl. stale entries and the allocator's reusable ids (C15)."""
    from serif.alias_tracker import _ALIAS_TRACKER
    alloc = world.alloc
    objidx = {}          # id(obj) -> index
    vididx = {}          # storage identity -> index
    heap = []

    def vid_of(tup):
        v = alloc.vid_of(tup) if alloc is not None else id(tup)
        if v is None:
            v = ("unnamed", id(tup))
        if type(tup) is tuple and not tup:
            return "()"
        if v not in vididx:
            vididx[v] = len(vididx)
        return vididx[v]

    def visit(o):
        k = id(o)
        if k in objidx:
            return objidx[k]
        idx = len(heap)
        objidx[k] = idx
        heap.append(None)
        d = o.__dict__
        und = d.get("_underlying", ())
        elems = []
        for e in und:
            if hasattr(e, "_underlying") and hasattr(e, "_dtype"):
                elems.append(("@", visit(e)))
            else:
                elems.append(canon_elem(e))
        dt = d.get("_dtype", None)
        fp = d.get("_fp", None)
        fp_state = None
        if fp is not None:
            try:
                fp_state = "current" if fp == o._compute_fingerprint_full() else "stale"
            except Exception:
                fp_state = "uncomputable"
        rec = [type(o).__name__, repr(d.get("_name", None)), None if dt is None else (dt.kind.__name__, dt.nullable),
               d.get("_display_as_row", False), d.get("_wild", None), fp_state, tuple(elems), vid_of(und)]
        if refcounts:
            # hidden references (an exception <-> traceback <-> frame cycle, a module-level cache holding the object) decide
            # whether the object dies when the program drops it: part of the state as far as liveness-sensitive futures go
            rec.append(sys.getrefcount(o))
        if is_table(o):
            cm = d.get("_column_map", None)
            rec += [d.get("_length", None), None if cm is None else tuple(sorted(cm.items())), d.get("_repr_rows", None)]
        heap[idx] = tuple(rec)
        return idx

    slots = []
    for s in world.slots:
        if s.kind == "tup":
            slots.append(("tup", tuple(canon_elem(e) for e in s.obj), vid_of(s.obj)))
        else:
            slots.append((s.kind, visit(s.obj)))
    limbo = tuple(sorted(((visit(o) if hasattr(o, '__dict__') else ('tup', vid_of(o))) for o in world.limbo), key=repr))
    reg = []
    registry = _ALIAS_TRACKER._registry
    if registry_mode == "full":
        stale_n = 0
        for key in sorted(registry, key=lambda k: (0, vididx[k]) if k in vididx else (1, str(k))):
            refs = registry[key]
            owners = sorted(objidx[id(r())] for r in refs if r() is not None and id(r()) in objidx)
            hidden = sum(1 for r in refs if r() is not None and id(r()) not in objidx)
            if not owners and not hidden:
                continue
            if key in vididx:
                reg.append((("vid", vididx[key]), tuple(owners), hidden))
            else:
                reg.append((("stale", stale_n), tuple(owners), hidden))
                stale_n += 1
    else:
        for k, i in sorted(vididx.items(), key=lambda kv: kv[1]):
            refs = registry.get(k) or []
            owners = sorted(objidx[id(r())] for r in refs if r() is not None and id(r()) in objidx)
            reg.append((i, tuple(owners)))
    return (tuple(slots), tuple(heap), limbo, tuple(reg))


def state_hash(canon):
    return hashlib.sha1(repr(canon).encode()).digest()


# ------------------------------------------------------------------------------------------
# replay and BFS
# ------------------------------------------------------------------------------------------

def replay(driver, history, upto=None):
    """Re-execute a history from scratch.  Returns (world, last_pre_snapshot, last_outcome)."""
    core.reset_globals(getattr(driver, "alloc_policy", "fresh"))
    world = driver.new_world()
    pre = out = None
    n = len(history) if upto is None else upto
    for i in range(n):
        ev = history[i]
        if i == n - 1:
            pre = driver.snapshot(world)
        out = driver.apply(world, ev)
        driver.after_event(world)
    return world, pre, out


def expand_states(args):
    """Worker: for each history in the batch, enumerate enabled events, execute every transition,
    run the monitor, return successors (history, hash) and counters."""
    driver, batch = args
    agg = Agg()
    succ = []
    for hist in batch:
        world, _, _ = replay(driver, hist)
        events = driver.events(world)
        del world
        work = list(events)
        variants = getattr(driver, "variants", None)
        while work:
            ev = work.pop(0)
            h2 = hist + (ev,)
            try:
                w2, pre, out = replay(driver, h2)
            except driver.Disabled:
                continue
            agg.transitions += 1
            agg.evals += 1
            c = driver.canon(w2)            # before the monitor: the monitor's own reads may fill caches
            driver.check(w2, pre, ev, out, agg, h2)
            agg.compared += 1
            succ.append((h2, state_hash(c)))
            if variants is not None:
                # environment deviations discovered while executing ev (e.g. identity-reuse choices)
                work.extend(variants(w2, h2, ev))
            del w2
    return agg, succ


def bfs(driver, max_depth, agg, jobs=None, cap_states=None):
    seen = set()
    frontier = []
    for seed in driver.seeds():
        seed = tuple(seed)
        w, pre, out = replay(driver, seed)
        hsh = state_hash(driver.canon(w))
        if hsh not in seen:
            seen.add(hsh)
            frontier.append(seed)
        del w
    agg.states += len(frontier)
    sizes = [len(frontier)]
    depth_done = 0
    jobs = jobs or core.ncores()
    capped = False
    for depth in range(1, max_depth + 1):
        if not frontier:
            break
        nb = max(1, min(len(frontier), jobs * 4))
        batches = [tuple(frontier[i::nb]) for i in range(nb)]
        results = core.pmap(expand_states, [(driver, b) for b in batches], jobs=jobs)
        nxt = []
        for r in results:
            if isinstance(r, Agg):          # a unit crashed inside the library: violation already recorded
                agg.merge(r)
                continue
            a, succ = r
            agg.merge(a)
            for h2, hsh in succ:
                if hsh not in seen:
                    seen.add(hsh)
                    nxt.append(h2)
        agg.states += len(nxt)
        sizes.append(len(nxt))
        depth_done = depth
        frontier = nxt
        if cap_states and len(seen) > cap_states and depth < max_depth:
            capped = True
            break
    agg.notes["frontier_sizes"] = sizes
    agg.notes["depth_completed"] = depth_done
    agg.notes["states_capped"] = capped
    agg.notes["exhaustive"] = not capped
    return seen
