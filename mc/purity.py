"""Purity matrix and deferred-observation isolation (Engine E part of C01).

A *scenario* is a deterministic little heap: an operand `x` of a given kind and provenance form (stand-alone vector,
live column view of a table, vector a table was built from, vector whose dtype was made nullable by an earlier write,
table, row of a table), the objects related to it (parent table, sibling column, donor) and a second operand `y`.
A *derivation* is any operation that returns a new object and must not change its operands; a *write* is an in-place
update of one scenario object.

Three oracles, all differential (no hand-written expected values):
  purity    : the type-exact observation of EVERY scenario object is the same before and after a derivation, whether it
              returns or raises;
  deferred  : r = d(S1) is taken and NOT looked at; the same derivation on an independently built equal scenario S2
              gives what r showed when it was derived; then S1 is written in place; only now r is observed: it must
              still show the derivation-time contents (lazy snapshots, views that should have been copies);
  backwrite : a write into the result r never changes a scenario object (except through a live column view, which the
              statement allows: derivations that hand out the table's own column are marked `live`).
"""
from __future__ import annotations

import operator
from datetime import date, datetime

from .core import Agg, V
import itertools
from .models import obs, canon_elem, is_table

D0, D1, D2 = date(2020, 1, 1), date(2021, 2, 3), date(2022, 3, 4)
T0, T1, T2 = datetime(2020, 1, 1, 5), datetime(2021, 2, 3, 6), datetime(2022, 3, 4, 7)
KINDS = {
    "int": [1, 2, 3], "int?": [1, None, 3], "bigint": [2 ** 53 + 1, -1, 2], "float": [1.5, 2.0, -0.5], "float?": [None, 2.5, 3.5],
    "bool": [True, False, True], "str": ["a", "b", "c"], "str?": ["a", None, "c"], "date": [D0, D1, D2], "datetime": [T0, T1, T2],
    "complex": [1j, 2 + 0j, 3 + 1j], "object": [1, "a", None], "bytes": [b"ab", b"c", b""],
    "acc": None, "acc?": None,          # built fresh for every scenario by FACTORIES (the elements are mutable)
    "empty": [],                        # zero rows: vectors, live views and tables without a single cell
    "allnone": [None, None, None],      # nothing but None (the 'rewritten' form then stores a str into it)
}
class Acc:
    """a user-defined element with an IN-PLACE += (and + / 0 + x, so that the built-in sum() works): a read-only reduction
    that folds with += would rewrite the vector's own first cell"""
    def __init__(self, n): self.n = n
    def __repr__(self): return f"Acc({self.n})"
    def __eq__(self, o): return isinstance(o, Acc) and o.n == self.n
    def __hash__(self): return hash(("Acc", self.n))
    def __add__(self, o): return Acc(self.n + (o.n if isinstance(o, Acc) else o))
    def __radd__(self, o): return Acc(self.n + o)
    def __iadd__(self, o):
        self.n += o.n if isinstance(o, Acc) else o
        return self
    def __lt__(self, o): return self.n < o.n


FACTORIES = {"acc": lambda: [Acc(100), Acc(250), Acc(5)], "acc?": lambda: [Acc(100), None, Acc(5)]}
FORMS = ("vector", "view", "donor", "rewritten", "table", "row")
SCALARS = [2, 2.5, True, "z", None, 1j, D1, T1, 2 ** 60, b"q", 0, -1, 0.0, 0j, "", False]      # falsy values of every kind included
HUGE_OPS = ("pow", "lshift", "mul")          # operators whose result size explodes with a huge right operand
BINOPS = ["add", "sub", "mul", "truediv", "floordiv", "mod", "pow", "eq", "ne", "lt", "le", "gt", "ge", "and_", "or_", "xor", "lshift", "rshift", "matmul"]


def is_vec(x):
    from serif import Vector
    return isinstance(x, Vector)


def holds_vectors_by_reference(r):
    """a non-table vector whose elements are vectors (ragged stacking, Vector([a, b])) keeps the very objects it was given,
    like an object vector keeps a list: a later write to such an element is visible through it by construction.  Not judged
    (DESIGN 13.5): the statement's derivations are tables, copies, slices, selections, joins and sorts."""
    return is_vec(r) and not is_table(r) and not is_row(r) and any(is_vec(e) for e in r._underlying)


def is_row(x):
    return type(x).__name__ == "Row"


def observe(x):
    """type-exact image of any result"""
    if is_row(x):
        labels = getattr(x, "_column_map", None)
        by_label = tuple(sorted((str(k), canon_elem(x._raw_cols[i][x._index])) for k, i in labels.items())) if isinstance(labels, dict) else None
        return ("R", tuple(canon_elem(e) for e in x._underlying), (x._dtype.kind.__name__, bool(x._dtype.nullable)) if x._dtype is not None else None, by_label)
    if is_vec(x):
        return obs(x)
    if isinstance(x, (list, tuple)):
        return (type(x).__name__, tuple(observe(e) for e in x))
    if isinstance(x, dict):
        return ("dict", tuple((repr(k), observe(v)) for k, v in x.items()))
    return canon_elem(x)


class Scenario:
    """objects: name -> object (all observed); x = the operand under test; y = second operand (or None)"""

    def __init__(self, kind, form, ykind=None):
        from serif import Vector, Table
        vals = FACTORIES[kind]() if kind in FACTORIES else list(KINDS[kind])
        self.objects = {}
        self.kind, self.form = kind, form
        if form == "vector":
            x = Vector(list(vals), name="x")
        elif form == "view":
            t = Table([Vector(list(vals), name="x"), Vector([10, 20, 30][:len(vals)], name="s")])
            x = t["x"]
            self.objects["parent"] = t
            self.objects["sibling"] = t["s"]
        elif form == "donor":
            # while the table is built the donors are reachable ONLY through the list handed to Table(...) (a program that builds
            # its columns in a list comprehension): nothing but that list keeps them alive, and they are still the caller's
            cols = [Vector(list(vals), name="x"), Vector([10, 20, 30][:len(vals)], name="s"), Vector([7, 8, 9][:len(vals)], name="u")]
            self.objects["built"] = Table(cols)
            x, s = cols[0], cols[1]
            self.objects["other-donor"] = s
            self.objects["third-donor"] = cols[2]
        elif form == "rewritten":
            # an earlier None write made the dtype nullable; the None is gone again
            x = Vector(list(vals), name="x")
            keep = x._underlying[1] if len(vals) > 1 else None
            try:
                if kind == "allnone":
                    x[1] = "late"           # a vector that was built from nothing but None and received a value afterwards
                else:
                    x[1] = None
                    x[1] = keep if keep is not None else vals[0]
            except Exception:
                pass
        elif form == "table":
            x = Table([Vector(list(vals), name="x"), Vector([10, 20, 30][:len(vals)], name="s")])
            self.objects["col-view"] = x["x"]
        elif form == "row":
            t = Table([Vector(list(vals), name="x"), Vector(list(vals), name="x2"), Vector(list(vals), name="x3")])
            self.objects["parent"] = t
            x = t[1] if len(vals) > 1 else Vector(list(vals), name="x")
        self.objects["x"] = x
        self.x = x
        self.y = None
        if ykind is not None:
            if ykind == "table":
                self.y = Table([Vector(FACTORIES[kind]() if kind in FACTORIES else list(KINDS[kind]), name="x"), Vector([10, 20, 30], name="s")])
            else:
                self.y = Vector(list(KINDS[ykind]), name="y")
            self.objects["y"] = self.y

    def snapshot(self, skip=()):
        return {k: observe(o) for k, o in self.objects.items() if k not in skip}


# ---------------------------------------------------------------------------------------------- derivations
def derivations(kind, form):
    """[(label, fn(scn) -> result, live)]; the label is stable (used in signatures); live = result is the table's own column"""
    from serif import Vector, Table
    out = []

    def add(label, fn, live=False):
        out.append((label, fn, live))

    tab = form == "table"
    for name in BINOPS:
        op = getattr(operator, name)
        if name in HUGE_OPS and kind == "bigint":
            continue                      # (2**53+1) ** (2**53+1) does not terminate in Python either
        for si, s in enumerate(SCALARS):
            if name in HUGE_OPS and isinstance(s, int) and abs(s) > 100:
                continue
            add(f"x {name} scalar:{type(s).__name__}", lambda sc, op=op, s=s: op(sc.x, s))
            add(f"scalar:{type(s).__name__} {name} x", lambda sc, op=op, s=s: op(s, sc.x))
        for k2 in ("int", "float?", "str", "date", "complex", "object"):
            add(f"x {name} list:{k2}", lambda sc, op=op, k2=k2: op(sc.x, list(KINDS[k2])))
            add(f"list:{k2} {name} x", lambda sc, op=op, k2=k2: op(list(KINDS[k2]), sc.x))
        add(f"x {name} short-list", lambda sc, op=op: op(sc.x, [1, 2]))
        iop = getattr(operator, "i" + name.rstrip("_"), None)
        if iop is not None and name not in ("eq", "ne", "lt", "le", "gt", "ge"):
            # augmented assignment (x += 1, c <<= v): a vector defines no in-place operators, so the result is a new object
            add(f"x {name}= scalar", lambda sc, iop=iop: iop(sc.x, 2), False)
            add(f"x {name}= x", lambda sc, iop=iop: iop(sc.x, sc.x), False)
        add(f"x {name} x", lambda sc, op=op: op(sc.x, sc.x))
    for name, fn in (("neg", operator.neg), ("pos", operator.pos), ("abs", abs), ("invert", operator.invert), ("repr", repr), ("str", str),
                     ("len", len), ("list", lambda x: list(x)), ("iter-next", lambda x: next(iter(x))), ("bool", lambda x: bool(x)),
                     ("dir", lambda x: dir(x) and None), ("reversed", lambda x: x[::-1]), ("contains", lambda x: 2 in x)):
        add(name, lambda sc, fn=fn: fn(sc.x))
    # every public no-argument method / property of the object's own class, found at run time
    skip = {"rename", "alias", "new", "rename_column", "rename_columns", "name", "today", "fromtimestamp", "fromisoformat", "fromordinal",
            "fromisocalendar", "maketrans", "format", "format_map", "join"}
    return out, skip


def dynamic_derivations(x, skip):
    out = []
    import inspect
    for nm in sorted(n for n in dir(type(x)) if not n.startswith("_") and n not in skip):
        st = inspect.getattr_static(type(x), nm, None)
        if isinstance(st, property):
            out.append((f".{nm}", (lambda sc, nm=nm: getattr(sc.x, nm)), nm in ("cols",)))
        else:
            out.append((f".{nm}()", (lambda sc, nm=nm: getattr(sc.x, nm)()), nm in ("cols",)))
    return out


def arg_derivations(kind, form):
    from serif import Vector, Table
    out = []

    def add(label, fn, live=False):
        out.append((label, fn, live))
    for s in SCALARS:
        add(f".fillna({type(s).__name__})", lambda sc, s=s: sc.x.fillna(s))
        add(f".pluck({type(s).__name__})", lambda sc, s=s: sc.x.pluck(s))
    for t in (int, float, str, bool, complex, object, date, datetime):
        add(f".cast({t.__name__})", lambda sc, t=t: sc.x.cast(t))
        add(f".isinstance({t.__name__})", lambda sc, t=t: sc.x.isinstance(t))
    for key_label, key in (("0", 0), ("-1", -1), ("9", 9), ("0:2", slice(0, 2)), ("::-1", slice(None, None, -1)), ("::2", slice(None, None, 2)),
                           ("1:1", slice(1, 1)), ("mask", [True, False, True]), ("mask-short", [True]), ("tuple-idx", (0, 2))):
        add(f"x[{key_label}]", lambda sc, key=key: sc.x[key])
    add("x[mask-vector]", lambda sc: sc.x[Vector([False, True, True])])
    add("x[index-vector]", lambda sc: sc.x[Vector([2, 0, 0])])
    import copy as _copy, pickle as _pickle
    add("copy.copy(x)", lambda sc: _copy.copy(sc.x))
    add("copy.deepcopy(x)", lambda sc: _copy.deepcopy(sc.x))
    add("pickle round trip", lambda sc: _pickle.loads(_pickle.dumps(sc.x)))
    add("list(reversed(x))", lambda sc: list(reversed(sc.x)))
    add("hash(x)", lambda sc: hash(sc.x))
    add("x == x (as a whole)", lambda sc: (sc.x == sc.x))
    add("sorted(x)", lambda sc: sorted(e for e in sc.x if e is not None))
    add("sum(x)", lambda sc: sum(e for e in sc.x if e is not None))
    add("x << x", lambda sc: sc.x << sc.x)
    add("x >> x", lambda sc: sc.x >> sc.x)
    add("copy(name)", lambda sc: sc.x.copy(name="k"))
    add("Table([x,x])", lambda sc: Table([sc.x, sc.x]))
    add("Vector(x)", lambda sc: Vector(sc.x))
    add("Vector([x, x]) ", lambda sc: Vector([sc.x, sc.x]))
    add("Table({'k': x})", lambda sc: Table({"k": sc.x}))
    add("list-of-rows", lambda sc: [tuple(r) for r in sc.x] if is_table(sc.x) else list(sc.x))
    if form == "table":
        add("sort_by(x)", lambda sc: sc.x.sort_by("x"))
        add("sort_by(x,s,desc)", lambda sc: sc.x.sort_by(["x", "s"], reverse=[True, False]))
        add("sort_by(view)", lambda sc: sc.x.sort_by(sc.x["s"], reverse=True))
        for j in ("inner_join", "join", "full_join"):
            add(f"{j}(self)", lambda sc, j=j: getattr(sc.x, j)(sc.x, "s", "s", expect="one_to_one"))
            add(f"{j}(self,x)", lambda sc, j=j: getattr(sc.x, j)(sc.x, "x", "x", expect="many_to_many"))
        for a in ("aggregate", "window"):
            add(f"{a}(over x)", lambda sc, a=a: getattr(sc.x, a)(over="x", sum_over="s", count_over="s", max_over="s"))
            add(f"{a}(over s)", lambda sc, a=a: getattr(sc.x, a)(over=sc.x["s"], min_over="x", count_over="x", apply={"k": (sc.x["x"], len)}))
        add("t['x','s']", lambda sc: sc.x["x", "s"])
        add("t['s','x']", lambda sc: sc.x["s", "x"])
        add("t['x',]", lambda sc: sc.x["x",])
        add("t[0:2,'x']", lambda sc: sc.x[0:2, "x"])
        add("t[:,0]", lambda sc: sc.x[:, 0])
        add("t[:,0:1]", lambda sc: sc.x[:, 0:1])
        add("t[1,0]", lambda sc: sc.x[1, 0])
        add("t[1]", lambda sc: sc.x[1])
        add("t[-1]", lambda sc: sc.x[-1])
        add("t[1][0:2]", lambda sc: sc.x[1][0:2])
        add("t['x__0','s']", lambda sc: sc.x["x__0", "s"])                # a generated accessor name inside a name tuple
        add("t['s__1','x__0']", lambda sc: sc.x["s__1", "x__0"])
        add("t['x__0',]", lambda sc: sc.x["x__0",])
        add("t[:,'x']", lambda sc: sc.x[:, "x"])                          # all rows through a 2-D key: still a new object
        add("t[0:3,'x']", lambda sc: sc.x[0:3, "x"])
        add("t[0:3,1]", lambda sc: sc.x[0:3, 1])
        add("t['x',:]", lambda sc: sc.x["x", :])
        add("t[:,('x','s')]", lambda sc: sc.x[:, ("x", "s")])
        add("t['x']", lambda sc: sc.x["x"], True)
        add("t.x", lambda sc: sc.x.x, True)
        add("t.cols(0)", lambda sc: sc.x.cols(0), True)
        add("t.cols()", lambda sc: sc.x.cols(), True)
        add("t << row", lambda sc: sc.x << [sc.x._underlying[0]._underlying[0], 99])
        add("t << t[0]", lambda sc: sc.x << sc.x[0])
        add("t << t", lambda sc: sc.x << sc.x)
        add("t >> vec", lambda sc: sc.x >> Vector([7, 8, 9], name="n"))
        add("t >> view", lambda sc: sc.x >> sc.x["s"])
        add("t >> dict", lambda sc: sc.x >> {"n": sc.x["s"]})
        add("t >> t", lambda sc: sc.x >> sc.x)
        add("column_names", lambda sc: sc.x.column_names())
    return out


def y_derivations():
    out = []
    for name in BINOPS:
        op = getattr(operator, name)
        out.append((f"x {name} y", lambda sc, op=op: op(sc.x, sc.y), False))
        out.append((f"y {name} x", lambda sc, op=op: op(sc.y, sc.x), False))
    return out


# ---------------------------------------------------------------------------------------------- writes
def writes(form):
    """[(label, fn(scn))]: in-place updates of scenario objects (each changes observable contents when it succeeds)"""
    from serif import Vector
    W = []

    def newval(old, k):
        if isinstance(old, bool):
            return not old
        if isinstance(old, (int, float, complex)):
            return old + 1
        if isinstance(old, str):
            return old + "!"
        if isinstance(old, bytes):
            return old + b"!"
        if isinstance(old, datetime):
            return old.replace(year=old.year + 1)
        if isinstance(old, date):
            return old.replace(year=old.year + 1)
        return k

    def col_write(v, i):
        u = v._underlying
        v[i] = newval(u[i] if u[i] is not None else next((e for e in u if e is not None), 0), 5)

    if form in ("vector", "donor", "rewritten"):
        for i in (0, 1, 2):
            W.append((f"x[{i}]=", lambda sc, i=i: col_write(sc.x, i)))
        W.append(("x[1]=None", lambda sc: sc.x.__setitem__(1, None)))
        W.append(("x[0:2]=", lambda sc: sc.x.__setitem__(slice(0, 2), [newval(e, 5) if e is not None else None for e in sc.x._underlying[0:2]][::-1] * 1)))
        W.append(("x.name=", lambda sc: setattr(sc.x, "name", "renamed")))
    if form == "donor":
        W.append(("built[1,0]=", lambda sc: col_write(sc.objects["built"]._underlying[0], 1)))
    if form == "view":
        for i in (0, 1, 2):
            W.append((f"view[{i}]=", lambda sc, i=i: col_write(sc.x, i)))
        W.append(("parent[1,'x']=", lambda sc: sc.objects["parent"].__setitem__((1, "x"), newval(sc.x._underlying[1] if sc.x._underlying[1] is not None else sc.x._underlying[0], 5))))
        W.append(("parent.x=list", lambda sc: setattr(sc.objects["parent"], "x", [newval(e, 5) if e is not None else None for e in sc.x._underlying])))
    if form == "table":
        for i in (0, 1, 2):
            W.append((f"t.x[{i}]=", lambda sc, i=i: col_write(sc.x["x"], i)))
            W.append((f"t[{i},'s']=", lambda sc, i=i: sc.x.__setitem__((i, "s"), 77 + i)))
        W.append(("t.s=list", lambda sc: setattr(sc.x, "s", [7, 8, 9])))
        W.append(("t[:,1]=", lambda sc: sc.x.__setitem__((slice(None), 1), [7, 8, 9])))
        W.append(("t.rename_column", lambda sc: sc.x.rename_column("s", "renamed")))
        W.append(("t.rename_column(x)", lambda sc: sc.x.rename_column("x", "renamed")))
        W.append(("swap names through views", lambda sc: (lambda a, b: (setattr(a, "name", "s"), setattr(b, "name", "x"), dir(sc.x)))(sc.x.cols()[0], sc.x.cols()[1])))
    if form == "row":
        for i in (0, 1, 2):
            W.append((f"parent.x[{i}]=", lambda sc, i=i: col_write(sc.objects["parent"]["x"], i)))
            W.append((f"parent[{i},2]=", lambda sc, i=i: col_write(sc.objects["parent"]._underlying[2], i)))
        W.append(("parent.rename_column(x)", lambda sc: sc.objects["parent"].rename_column("x", "renamed")))
        W.append(("parent: swap names through views", lambda sc: (lambda p: (setattr(p.cols()[0], "name", "x3"), setattr(p.cols()[2], "name", "x"), dir(p), p[0]))(sc.objects["parent"])))
        W.append(("parent.x2=list", lambda sc: setattr(sc.objects["parent"], "x2", [newval(e, 5) if e is not None else None for e in sc.objects["parent"]._underlying[1]._underlying])))
    return W


def result_write(r):
    """write into a derived object; returns True if something was written"""
    if is_row(r) or not is_vec(r):
        return False
    try:
        if is_table(r):
            if len(r._underlying) and len(r):
                c = r._underlying[0]
                c[0] = c._underlying[0] if False else _bump(c._underlying)
                return True
            return False
        if len(r._underlying):
            r[0] = _bump(r._underlying)
            return True
    except Exception:
        return False
    return False


def _bump(u):
    e = next((a for a in u if a is not None), None)
    if isinstance(e, bool):
        return not u[0] if u[0] is not None else True
    if isinstance(e, (int, float, complex)):
        return (u[0] if u[0] is not None else e) + 1
    if isinstance(e, str):
        return "~changed~"
    if isinstance(e, datetime):
        return datetime(1999, 1, 1, 1)
    if isinstance(e, date):
        return date(1999, 1, 1)
    if isinstance(e, bytes):
        return b"~changed~"
    return None if e is not None else 1


# ---------------------------------------------------------------------------------------------- the unit
def all_derivations(kind, form, ykind):
    from serif import Vector
    base, skip = derivations(kind, form)
    probe = Scenario(kind, form, ykind)
    ds = list(base) + dynamic_derivations(probe.x, skip) + arg_derivations(kind, form)
    if ykind is not None:
        ds = y_derivations()
    return ds


def unit_purity(unit):
    """unit = ('purity', kind, form, ykind, level) ; level 'full' also runs the deferred / backwrite oracles for every write"""
    _, kind, form, ykind, level = unit[:5]
    only = unit[5] if len(unit) > 5 else None         # replay: just this derivation
    agg = Agg()
    ds = [d for d in all_derivations(kind, form, ykind) if only is None or d[0] == only]
    ws = writes(form)
    # ---- write isolation: an in-place write (values or name) through one scenario object shows in that object, in the table it
    # is a live column of - and nowhere else (the vector a table was built FROM, a sibling column, a row taken earlier ...)
    if (only is None or only.startswith("(write)")) and ykind is None:
        allowed = {"vector": {"x"}, "rewritten": {"x"}, "donor": {"x"}, "view": {"x", "parent"}, "table": {"x", "col-view"}, "row": {"parent"}}[form]
        for wl, wf in ws:
            if only is not None and only != "(write) " + wl:
                continue
            sc = Scenario(kind, form, ykind)
            before = sc.snapshot()
            agg.evals += 1; agg.states += 1; agg.transitions += 1; agg.compared += len(before)
            try:
                wf(sc)
            except Exception:
                agg.outcomes["write-refused"] += 1
                continue
            after = sc.snapshot()
            ok_here = {"built"} if wl.startswith("built") else allowed
            leaked = [k for k in before if before[k] != after[k] and k not in ok_here]
            agg.nontrivial += 1
            if leaked:
                agg.violation(V(f"write.{form}", "write-shows-in-" + leaked[0].split("-")[0], {"operand": kind, "form": form, "second_operand": None, "derivation": "(write) " + wl, "changed": leaked},
                                _brief(before[leaked[0]]), _brief(after[leaked[0]])))
            else:
                agg.outcomes["write-stays-local"] += 1
    for label, fn, live in ds:
        case = {"operand": kind, "form": form, "second_operand": ykind, "derivation": label}
        # ---- purity
        sc = Scenario(kind, form, ykind)
        before = sc.snapshot()
        agg.evals += 1; agg.states += 1; agg.transitions += 1
        try:
            r = fn(sc)
            raised = None
        except Exception as e:
            r, raised = None, type(e).__name__
        after = sc.snapshot()
        agg.compared += len(before)
        changed = [k for k in before if before[k] != after[k]]
        if changed:
            agg.violation(V(f"pure.{form}.{_site(label)}", ("failed-" if raised else "") + "operation-changed-" + changed[0].split("-")[0],
                            dict(case, changed=changed, raised=raised), _brief(before[changed[0]]), _brief(after[changed[0]])))
            continue
        agg.outcomes["pure-raises" if raised else "pure-returns"] += 1
        if raised or level != "full":
            continue
        derived = is_vec(r) or isinstance(r, (list, tuple))
        if not derived:
            continue
        try:
            if holds_vectors_by_reference(r):
                agg.skipped["result-holds-its-operands-as-elements"] += 1
                continue
        except Exception:
            pass                          # e.g. a row taken at an out-of-range index raises when it is read
        # ---- backwrite: a write into the result changes no scenario object (unless the result is the table's own column)
        if not live and result_write(r):
            agg.nontrivial += 1; agg.transitions += 1
            after2 = sc.snapshot()
            ch = [k for k in before if before[k] != after2[k]]
            if ch:
                agg.violation(V(f"backwrite.{form}.{_site(label)}", "write-into-result-changed-" + ch[0].split("-")[0],
                                dict(case, changed=ch), _brief(before[ch[0]]), _brief(after2[ch[0]])))
                continue
            agg.outcomes["result-write-stays-local"] += 1
        if live:
            continue
        # ---- deferred observation under every later write
        for wl, wf in ws:
            s1 = Scenario(kind, form, ykind)
            s2 = Scenario(kind, form, ykind)
            try:
                r1 = fn(s1)              # never looked at before the write
                want = observe(fn(s2))
            except Exception:
                break
            try:
                wf(s1)
            except Exception:
                agg.outcomes["write-refused"] += 1
                continue
            agg.nontrivial += 1; agg.transitions += 2; agg.compared += 1
            try:
                got = observe(r1)
            except Exception as e:
                got = ("raises", type(e).__name__)
            if got != want:
                agg.violation(V(f"deferred.{form}.{_site(label)}", "derived-object-shows-a-later-write",
                                dict(case, later_write=wl), _brief(want), _brief(got)))
                break
            agg.outcomes["derived-object-keeps-contents"] += 1
    return agg


def _site(label):
    import re
    return re.sub(r"scalar:\w+|list:[\w?]+", "other", label)[:40]


def _brief(o):
    s = repr(o)
    return s if len(s) < 400 else s[:400] + "..."


def unit_nested_copies(unit):
    """copy.deepcopy and a pickle round trip promise full independence also for a vector whose cells are vectors: a write through a
    cell of the copy is not seen through the original, and the other way round"""
    import copy, pickle
    from serif import Vector
    agg = Agg()
    for label, fn in (("copy.deepcopy", copy.deepcopy), ("pickle round trip", lambda o: pickle.loads(pickle.dumps(o)))):
        for direction in ("write-through-the-copy", "write-through-the-original"):
            for wkind in ("cell", "promote", "name", "none"):
                agg.evals += 1; agg.transitions += 2; agg.states += 1; agg.nontrivial += 1; agg.compared += 1
                a, b = Vector([1, 2], name="a"), Vector([3, 4, 5], name="b")
                o = Vector([a, b])
                case = {"operand": "vector of two vectors", "derivation": label, "then": direction, "write": wkind}
                try:
                    c = fn(o)
                except Exception:
                    agg.outcomes["pure-raises"] += 1
                    continue
                src, dst = (c, o) if direction == "write-through-the-copy" else (o, c)
                before = observe(dst)
                try:
                    inner = src._underlying[0]
                    if wkind == "cell":
                        inner[0] = 99
                    elif wkind == "promote":
                        inner[1] = 2.5
                    elif wkind == "name":
                        inner.name = "renamed"
                    else:
                        inner[0] = None
                except Exception:
                    agg.skipped["write-refused"] += 1
                    continue
                if observe(dst) != before:
                    agg.violation(V("deepcopy.nested", "write-seen-through-the-other-object", case, _brief(before), _brief(observe(dst))))
                else:
                    agg.outcomes["result-write-stays-local"] += 1
    return agg


def unit_odd_names(unit):
    """operands whose NAMES are not strings (years as ints, a tuple, a float, None) or are strings that need sanitising: the
    read-only operations that do not address columns by name - repr, str, dir, fingerprint, len, iteration, row access, copy,
    transposition, slicing, arithmetic with a scalar, comparison, sorting by a column object, column_names() - leave contents,
    dtypes and the names themselves (type-exact) as they were"""
    import warnings
    from serif import Vector, Table
    agg = Agg()
    namesets = [[2023, 2024, "total"], [("q", 1), None, "x"], [2.5, True, ""], ["A b", "a_b", "A b"], [None, None, None], [b"k", 0, -1]]
    ops = [("repr", lambda t: repr(t)), ("str", lambda t: str(t)), ("dir", lambda t: dir(t)), ("fingerprint", lambda t: t.fingerprint()), ("len", lambda t: len(t)),
           ("iterate", lambda t: [tuple(r) for r in t]), ("row", lambda t: t[0]), ("copy", lambda t: t.copy()), ("T", lambda t: t.T), ("slice", lambda t: t[0:1]),
           ("add-scalar", lambda t: t + 1), ("scalar-add", lambda t: 1 + t), ("compare", lambda t: t == t.copy()), ("sort_by-column", lambda t: t.sort_by(t.cols()[0])),
           ("column_names", lambda t: t.column_names()), ("cols", lambda t: t.cols()), ("repr-of-column", lambda t: repr(t.cols()[0])), ("repr-twice", lambda t: (repr(t), repr(t))),
           ("schema", lambda t: [c.schema() for c in t.cols()]), ("shape", lambda t: t.shape), ("aggregate-by-column", lambda t: t.aggregate(over=t.cols()[0], sum_over=t.cols()[1])),
           ("join-by-column", lambda t: t.inner_join(t.copy(), t.cols()[0], t.cols()[0], expect="many_to_many"))]

    def image(t, handle):
        return ([(type(c._name).__name__, repr(c._name), tuple(map(canon_elem, c._underlying)), repr(c._dtype)) for c in t._underlying],
                (type(handle._name).__name__, repr(handle._name), tuple(map(canon_elem, handle._underlying))))
    for names in namesets:
        for opname, op in ops:
            for what in ("table", "vector"):
                with warnings.catch_warnings():
                    warnings.simplefilter("ignore")
                    try:
                        t = Table([Vector([1 + i, 2 + i, 3 + i], name=nm) for i, nm in enumerate(names)])
                        handle = t.cols()[0]
                        target = t if what == "table" else Vector([7, 8, 9], name=names[0])
                        before = image(t, handle)
                        vbefore = (type(target._name).__name__, repr(target._name)) if what == "vector" else None
                    except Exception:
                        agg.skipped["scenario-not-buildable"] += 1
                        continue
                    agg.evals += 1; agg.states += 1; agg.transitions += 1; agg.compared += 1; agg.nontrivial += 1
                    case = {"names": [repr(n_) for n_ in names], "operation": opname, "on": what, "derivation": None, "odd_names": True}
                    try:
                        if what == "table":
                            op(t)
                        elif opname in ("repr", "str", "dir", "fingerprint", "len", "copy", "slice", "add-scalar", "scalar-add", "repr-twice"):
                            op(target)
                        else:
                            continue
                    except Exception:
                        agg.outcomes["pure-raises"] += 1
                    after = image(t, handle)
                    if after != before:
                        agg.violation(V("purity.odd-names." + opname, "read-only-operation-changed-its-operand" + ("-name" if [x[2:] for x in after[0]] == [x[2:] for x in before[0]] else ""), case, before[0], after[0]))
                    elif what == "vector" and (type(target._name).__name__, repr(target._name)) != vbefore:
                        agg.violation(V("purity.odd-names." + opname, "read-only-operation-changed-its-operand-name", case, vbefore, repr(target._name)))
                    else:
                        agg.outcomes["pure-op"] += 1
    return agg


def unit_join_key_kinds(unit):
    """joins whose two key columns are of DIFFERENT kinds (date with datetime, int with float, bool with int, int with str ...),
    keys given by name, by column and by a free vector: whether such a join is performed or refused, both tables, their key
    columns and the caller's free key vectors keep contents and dtypes"""
    import warnings
    from datetime import date, datetime
    from serif import Vector, Table
    agg = Agg()
    kinds = {"bool": [True, False, True], "int": [1, 2, 1], "float": [1.0, 2.5, 1.0], "complex": [1j, 2j, 1j], "str": ["a", "b", "a"],
             "date": [date(2020, 1, 1), date(2020, 1, 2), date(2020, 1, 1)], "datetime": [datetime(2020, 1, 1), datetime(2020, 1, 2, 5), datetime(2020, 1, 1)],
             "int?": [1, None, 1], "date?": [date(2020, 1, 1), None, date(2020, 1, 2)]}
    for lk, rk in itertools.product(kinds, repeat=2):
        if lk == rk:
            continue
        for method in ("inner_join", "join", "full_join"):
            for form in ("name", "column", "free-vector"):
                with warnings.catch_warnings():
                    warnings.simplefilter("ignore")
                    L = Table([Vector(list(kinds[lk]), name="k"), Vector([10, 20, 30], name="lp")])
                    R = Table([Vector(list(kinds[rk]), name="j"), Vector([7, 8, 9], name="rp")])
                    lfree, rfree = Vector(list(kinds[lk]), name="k"), Vector(list(kinds[rk]), name="j")
                    hl, hr = L["k"], R["j"]
                    before = [obs(L), obs(R), obs(lfree), obs(rfree), obs(hl), obs(hr)]
                    agg.evals += 1; agg.states += 1; agg.transitions += 1; agg.compared += 6; agg.nontrivial += 1
                    case = {"left_key_kind": lk, "right_key_kind": rk, "method": method, "keys_given_as": form, "derivation": None, "join_key_kinds": True}
                    try:
                        if form == "name":
                            getattr(L, method)(R, "k", "j", expect="many_to_many")
                        elif form == "column":
                            getattr(L, method)(R, L["k"], R["j"], expect="many_to_many")
                        else:
                            getattr(L, method)(R, lfree, rfree, expect="many_to_many")
                        agg.outcomes["pure-op"] += 1
                    except Exception:
                        agg.outcomes["pure-raises"] += 1
                    after = [obs(L), obs(R), obs(lfree), obs(rfree), obs(hl), obs(hr)]
                    if after != before:
                        i = [a != b for a, b in zip(after, before)].index(True)
                        agg.violation(V("purity.join-key-kinds." + method, "read-only-operation-changed-its-operand", dict(case, changed=["left table", "right table", "left key vector", "right key vector", "left column handle", "right column handle"][i]),
                                        _brief(before[i]), _brief(after[i])))
    return agg


def unit_region_sources(unit):
    """`t[rows, cols] = other_table` (and a list of the other table's live columns, a row of it): the SOURCE is an operand of the
    write, not its target - it, and a column handle taken from it before, keep contents, names and dtypes.  Destination kinds x
    source kinds along both ladders (the source narrower, equal, wider), every 2-row region of a 3x2 destination."""
    from datetime import date, datetime
    from serif import Vector, Table
    agg = Agg()
    kinds = {"bool": [True, False], "int": [7, 8], "float": [0.5, 1.5], "complex": [1j, 2j], "date": [date(2020, 1, 1), date(2020, 1, 2)],
             "datetime": [datetime(2020, 1, 1, 5), datetime(2020, 1, 2, 6)], "str": ["p", "q"]}
    dest3 = {"bool": [True, True, False], "int": [1, 2, 3], "float": [0.25, 1.25, 2.25], "complex": [3j, 4j, 5j], "date": [date(2019, 1, 1)] * 3,
             "datetime": [datetime(2019, 1, 1, 1)] * 3, "str": ["a", "b", "c"]}
    for dk in dest3:
        for sk in kinds:
            for rows in (slice(0, 2), slice(1, 3), slice(None, None, 2)):
                for how in ("table", "list-of-live-columns", "tuple-of-live-columns", "sliced-table", "row"):
                    dest = Table([Vector(list(dest3[dk]), name="d0"), Vector(list(dest3[dk]), name="d1")])
                    src = Table([Vector(list(kinds[sk]), name="s0"), Vector(list(kinds[sk]), name="s1")])
                    handle = src["s0"]
                    before = (obs(src), obs(handle))
                    case = {"destination_kind": dk, "source_kind": sk, "rows": [rows.start, rows.stop, rows.step], "value": how,
                            "derivation": None}
                    agg.evals += 1; agg.states += 1; agg.transitions += 1; agg.compared += 2; agg.nontrivial += 1
                    try:
                        if how == "table":
                            dest[rows, :] = src
                        elif how == "list-of-live-columns":
                            dest[rows, :] = [src["s0"], src["s1"]]
                        elif how == "tuple-of-live-columns":
                            dest[rows, ("d0", "d1")] = (src.s0, src.s1)
                        elif how == "sliced-table":
                            dest[rows, 0:2] = src[0:2]
                        else:
                            dest[1] = src[0]
                    except Exception:
                        agg.outcomes["write-refused"] += 1
                        if (obs(src), obs(handle)) != before:
                            agg.violation(V("write.region-from-table", "refused-assignment-changed-its-source", case, _brief(before[0]), _brief(obs(src))))
                        continue
                    if (obs(src), obs(handle)) != before:
                        agg.violation(V("write.region-from-table", "assignment-changed-the-table-the-values-came-from", case, _brief(before[0]), _brief(obs(src))))
                    else:
                        agg.outcomes["write-stays-local"] += 1
    return agg


def unit_refusal_class(unit):
    """"A write that cannot be kept local is refused with AliasError and changes nothing": storage shared through the public
    routes (two vectors over one caller tuple; `t.b = tup` with `Vector(tup)` alive; `Vector(col.cols())`), then every write
    form through either handle and through the table - the refusal IS an AliasError (not merely some error), nothing changed."""
    from serif import Vector, Table
    from serif.alias_tracker import AliasError
    agg = Agg()

    def routes():
        def two_vectors():
            tup = (1, 2, 3)
            a, b = Vector(tup), Vector(tup)
            return {"a": a, "b": b}, [("a", a), ("b", b)], None
        def column_set_from_tuple():
            tup = (4, 5, 6)
            t = Table({"a": [7, 8, 9], "b": [1, 2, 3]})
            t.b = tup
            w = Vector(tup)
            return {"t": t, "w": w}, [("w", w), ("t.b", t["b"])], (t, "b")
        def vector_over_column_storage():
            t = Table({"a": [7, 8, 9], "b": [1, 2, 3]})
            w = Vector(t["b"].cols())
            return {"t": t, "w": w}, [("w", w), ("t.b", t["b"])], (t, "b")
        return [("two vectors over one tuple", two_vectors), ("t.b = tuple, Vector(tuple) alive", column_set_from_tuple),
                ("Vector(column.cols())", vector_over_column_storage)]
    vwrites = [("v[0]=", lambda v: v.__setitem__(0, 99)), ("v[-1]=None", lambda v: v.__setitem__(-1, None)), ("v[0:2]=", lambda v: v.__setitem__(slice(0, 2), [8, 9])),
               ("v[mask]=", lambda v: v.__setitem__([True, False, True], 0)), ("v[[0,2]]=", lambda v: v.__setitem__([0, 2], [5, 6])), ("v[1]=2.5", lambda v: v.__setitem__(1, 2.5))]
    twrites = [("t[0,c]=", lambda t, c: t.__setitem__((0, c), 99)), ("t[0]=row", lambda t, c: t.__setitem__(0, [50, 60])), ("t[:,c]=list", lambda t, c: t.__setitem__((slice(None), c), [1, 1, 1])),
               ("t[0:2,:]=table", lambda t, c: t.__setitem__((slice(0, 2), slice(None)), Table({"x": [1, 2], "y": [3, 4]}))), ("t[:,(a,b)]=0", lambda t, c: t.__setitem__((slice(None), ("a", "b")), 0)),
               ("t[mask]=0", lambda t, c: t.__setitem__([True, False, False], 0)), ("t[1,:]=", lambda t, c: t.__setitem__((1, slice(None)), [3, 4])), ("t[0,c]=None", lambda t, c: t.__setitem__((0, c), None))]
    for rname, mk in routes():
        objs, handles, tab = mk()
        plans = [(f"{hn}: {wl}", hn, wf, None) for hn, _ in handles for wl, wf in vwrites]
        if tab is not None:
            plans += [(f"table: {wl}", None, None, wf) for wl, wf in twrites]
        for label, hn, vf, tf in plans:
            objs, handles, tab = mk()
            before = {k: obs(o) for k, o in objs.items()}
            case = {"sharing": rname, "write": label, "derivation": None}
            agg.evals += 1; agg.states += 1; agg.transitions += 1; agg.compared += 1; agg.nontrivial += 1
            try:
                if tf is not None:
                    tf(tab[0], tab[1])
                else:
                    vf(dict(handles)[hn])
                raised = None
            except Exception as e:
                raised = e
            after = {k: obs(o) for k, o in objs.items()}
            if raised is None:
                # kept local after all (e.g. the implementation copies on write): then only the written object may differ
                agg.outcomes["write-kept-local"] += 1
                continue
            if after != before:
                agg.violation(V("write.refusal", "refused-write-changed-something", case, None, type(raised).__name__))
            elif not isinstance(raised, AliasError):
                agg.violation(V("write.refusal", "write-on-shared-storage-refused-with-another-error-than-AliasError", case, "AliasError", type(raised).__name__ + ": " + str(raised)[:80]))
            else:
                agg.outcomes["refused:AliasError"] += 1
    return agg


def plan(level_full_kinds, all_kinds=None):
    units = []
    for kind in (all_kinds or KINDS):
        for form in FORMS:
            units.append(("purity", kind, form, None, "full" if kind in level_full_kinds else "pure"))
    for kind in ("int", "int?", "float", "str", "date", "bool", "object"):
        for yk in ("int", "float?", "str?", "date", "datetime", "complex", "bool", "table"):
            for form in ("vector", "view", "table", "row"):
                units.append(("purity", kind, form, yk, "full" if kind in level_full_kinds and yk in ("int", "float?", "table") else "pure"))
    # operands with a HISTORY against a typed second operand (all-None vector that received a value, nullable flag left behind, zero rows)
    for kind in ("allnone", "int?", "empty", "object"):
        for yk in ("int", "str?", "float?"):
            for form in ("rewritten", "vector"):
                units.append(("purity", kind, form, yk, "pure"))
    return units
