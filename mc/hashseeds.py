"""Run one enumeration under several PYTHONHASHSEED values (DESIGN §2.4).

The parent process (seed from its own environment, normally 0) runs the units itself; for every
other seed a child interpreter is started with that PYTHONHASHSEED, runs the same units and
pickles its merged Agg.  Per-unit result digests must agree across seeds."""
from __future__ import annotations

import importlib
import os
import pickle
import subprocess
import sys
import tempfile

from . import core
from .core import Agg, V


def seeds_for(ctx):
    if ctx.thorough:
        return [0, 1, 2, 1 + (ctx.seed % (2 ** 31 - 2))]
    return [0, 1]


def run(ctx, modname, units, fn="run_unit"):
    seeds = []
    for s in seeds_for(ctx):
        if s not in seeds:
            seeds.append(s)
    own = int(os.environ.get("PYTHONHASHSEED", "0") or 0)
    if own not in seeds:
        seeds[0] = own
    others = [s for s in seeds if s != own]
    jobs_each = max(2, core.ncores() // (len(others) + 1))
    procs = []
    tmpd = tempfile.mkdtemp(prefix="vcheck_hs_")
    for s in others:
        out = os.path.join(tmpd, f"agg_{s}.pkl")
        upath = os.path.join(tmpd, f"units_{s}.pkl")
        with open(upath, "wb") as f:
            pickle.dump(units, f)
        env = dict(os.environ, PYTHONHASHSEED=str(s), VERIF_JOBS=str(jobs_each))
        p = subprocess.Popen([sys.executable, "-W", "ignore", "-m", "mc.hashseeds", modname, fn, upath, out], env=env)
        procs.append((s, p, out))
    mod = importlib.import_module(modname)
    total = core.merge_all(core.pmap(getattr(mod, fn), units, jobs=jobs_each))
    base_digests = dict(total.digests)
    total.notes["hash_seeds"] = [own]
    for s, p, out in procs:
        rc = p.wait()
        if rc != 0 or not os.path.exists(out):
            sys.stderr.write(f"HARNESS-ERROR: hash-seed child {s} failed rc={rc}\n")
            sys.exit(2)
        with open(out, "rb") as f:
            child = pickle.load(f)
        for k, dg in child.digests.items():
            if base_digests.get(k) != dg:
                total.violation(V("hash-seed", "result-depends-on-PYTHONHASHSEED", {"unit": k, "seeds": [own, s]},
                                  base_digests.get(k), dg))
        child.digests = {}
        child.states = 0          # distinct inputs are counted once (same space under another seed)
        child.nontrivial = 0
        total.merge(child)
        total.notes["hash_seeds"].append(s)
    try:
        for f in os.listdir(tmpd):
            os.unlink(os.path.join(tmpd, f))
        os.rmdir(tmpd)
    except OSError:
        pass
    return total


def _child(argv):
    modname, fn, upath, out = argv
    core.import_serif()
    with open(upath, "rb") as f:
        units = pickle.load(f)
    mod = importlib.import_module(modname)
    agg = core.merge_all(core.pmap(getattr(mod, fn), units))
    with open(out, "wb") as f:
        pickle.dump(agg, f)


if __name__ == "__main__":
    _child(sys.argv[1:])
