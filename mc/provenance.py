"""Equal-content objects built through different histories ("start from non-initial states too").

A function-like property (join, aggregate, sort, indexing, fingerprint, repr, ...) must give the same answer for two
tables / vectors with the same contents, names and dtypes, however they were produced.  `table_variants` and
`vector_variants` build the requested contents through a fixed, finite menu of routes - slicing a longer object,
masking, sorting a shuffled one, stacking with >>, appending rows with <<, renaming, assigning into a placeholder
through every write path, column views, concatenation - so that each check can also run its cases on derived
objects.  Checks use them round-robin (case index modulo number of routes): every route is exercised on many
inputs while every input is still executed exactly once on a freshly constructed object.
"""
from __future__ import annotations

from .models import same_list

TABLE_ROUTES = ("direct", "slice", "mask", "sorted", "stacked", "lshift", "renamed-method", "renamed-view", "assigned-column",
                "assigned-cells", "setattr", "copy", "select", "from-dict")
# routes that leave the dtype's nullable flag SET although the values hold no None (any more): used only by checks whose oracle
# does not depend on the operand's flag (joins, aggregation, window, sorting) - they opt in with flagged=True
TABLE_FLAG_ROUTES = ("none-row-sliced-away", "none-written-then-restored", "none-row-masked-away")
TABLE_ROUTES_ALL = TABLE_ROUTES + TABLE_FLAG_ROUTES
VECTOR_ROUTES = ("direct", "slice", "mask", "copy", "lshift", "assigned", "column-view", "sorted", "reversed-twice", "index-vector")


def _pad_like(vals):
    """a placeholder element of the same kind as the column (so that dtype inference of the padded column is unchanged)"""
    for v in vals:
        if v is not None:
            return v
    return None


def build_table(cols, route):
    """cols = [(name, [values])]; returns a Table with exactly these contents, or None if the route does not apply."""
    from serif import Table, Vector
    n = len(cols[0][1]) if cols else 0
    names = [nm for nm, _ in cols]

    def direct(cs=cols):
        return Table([Vector(list(v), name=nm) for nm, v in cs])

    if route == "direct":
        return direct()
    if route == "from-dict":
        if len(set(names)) != len(names) or any(not isinstance(nm, str) for nm in names):
            return None
        return Table({nm: list(v) for nm, v in cols})
    if not cols:
        return None
    if route == "slice":
        padded = [(nm, [_pad_like(v)] + list(v) + [_pad_like(v)]) for nm, v in cols]
        return direct(padded)[1:n + 1]
    if route == "mask":
        padded = [(nm, [_pad_like(v)] + list(v)) for nm, v in cols]
        return direct(padded)[[False] + [True] * n] if n else None
    if route == "sorted":
        if n < 2:
            return None
        order = list(range(n))[::-1]
        shuffled = [(nm, [v[i] for i in order]) for nm, v in cols] + [("__pos", order)]
        t = direct(shuffled).sort_by("__pos")
        keep = tuple(range(len(cols)))
        return Table(list(t.cols()[:len(cols)]))
    if route == "stacked":
        t = Table([Vector(list(cols[0][1]), name=cols[0][0])])
        for nm, v in cols[1:]:
            t = t >> Vector(list(v), name=nm)
        return t
    if route == "lshift":
        if n < 2:
            return None
        t = direct([(nm, list(v[:1])) for nm, v in cols])
        for i in range(1, n):
            t = t << [v[i] for _, v in cols]
        if not is_same_cells(t, cols):
            return None
        for c, (nm, _) in zip(t.cols(), cols):      # << does not promise names; restore them through the public API
            if c.name != nm:
                c.name = nm
        return t
    if route == "renamed-method":
        if any(not isinstance(nm, str) for nm in names) or len(set(names)) != len(names):
            return None
        t = direct([(f"tmp{i}", v) for i, (_, v) in enumerate(cols)])
        for i, nm in enumerate(names):
            t.rename_column(f"tmp{i}", nm)
        return t
    if route == "renamed-view":
        t = direct([(f"tmp{i}", v) for i, (_, v) in enumerate(cols)])
        for c, nm in zip(t.cols(), names):
            c.name = nm
        return t
    if route == "assigned-column":
        if n == 0:
            return None
        t = direct([(nm, [_pad_like(v)] * n) for nm, v in cols])
        for j, (_, v) in enumerate(cols):
            t[:, j] = list(v)
        return t if schemas_equal(t, direct()) else None
    if route == "assigned-cells":
        if n == 0:
            return None
        t = direct([(nm, [_pad_like(v)] * n) for nm, v in cols])
        for j, (_, v) in enumerate(cols):
            for i in range(n):
                t[i, j] = v[i]
        return t if schemas_equal(t, direct()) else None
    if route == "setattr":
        if n == 0 or any(not isinstance(nm, str) or not nm.isidentifier() for nm in names) or len(set(names)) != len(names):
            return None
        t = direct([(nm, [_pad_like(v)] * n) for nm, v in cols])
        for nm, v in cols:
            try:
                setattr(t, nm.lower(), Vector(list(v)))
            except AttributeError:
                return None
        return t if schemas_equal(t, direct()) else None
    if route == "copy":
        return direct().copy()
    if route == "none-row-sliced-away":
        if n == 0:
            return None
        return direct([(nm, [None] + list(v)) for nm, v in cols])[1:n + 1]
    if route == "none-row-masked-away":
        if n == 0:
            return None
        return direct([(nm, list(v) + [None]) for nm, v in cols])[[True] * n + [False]]
    if route == "none-written-then-restored":
        if n == 0:
            return None
        t = direct()
        for j, (_, v) in enumerate(cols):
            t[0, j] = None
            t[0, j] = v[0]
        return t
    if route == "select":
        if any(not isinstance(nm, str) for nm in names) or len(set(names)) != len(names):
            return None
        wide = direct(cols + [("__extra", [0] * n)])
        return wide[tuple(names)] if len(names) > 1 else wide[names[0],]
    raise KeyError(route)


def is_same_cells(t, cols):
    got = [list(c._underlying) for c in t.cols()]
    return len(got) == len(cols) and all(same_list(g, v) for g, (_, v) in zip(got, cols))


def schemas_equal(a, b):
    sa = [(c.schema().kind, c.schema().nullable) if c.schema() is not None else None for c in a.cols()]
    sb = [(c.schema().kind, c.schema().nullable) if c.schema() is not None else None for c in b.cols()]
    return sa == sb


def schemas_equal_up_to_flag(a, b):
    """same kinds; a's nullable flag may be set where b's is not"""
    def sch(t):
        return [(c.schema().kind, c.schema().nullable) if c.schema() is not None else None for c in t.cols()]
    sa, sb = sch(a), sch(b)
    return len(sa) == len(sb) and all((x is None and y is None) or (x is not None and y is not None and x[0] is y[0] and (x[1] or not y[1])) for x, y in zip(sa, sb))


def table_variant(cols, index, flagged=False):
    """Deterministic round-robin choice of a route; falls back to 'direct' when the route does not apply or does not
    reproduce names / cells / dtypes exactly (the variant must be an equal object, or it is not used).
    flagged=True adds the routes that leave a nullable flag behind (cells and kinds still equal)."""
    from serif import Table
    routes = TABLE_ROUTES_ALL if flagged else TABLE_ROUTES
    route = routes[index % len(routes)]
    try:
        t = build_table(cols, route)
    except Exception:
        t = None
    if t is not None and type(t).__name__ == "Table":
        try:
            ref = build_table(cols, "direct")
            if [c._name for c in t.cols()] == [nm for nm, _ in cols] and is_same_cells(t, cols) and \
                    (schemas_equal(t, ref) or (route in TABLE_FLAG_ROUTES and schemas_equal_up_to_flag(t, ref))):
                return route, t
        except Exception:
            pass
    return "direct", build_table(cols, "direct")


def build_vector(vals, name, route):
    from serif import Vector, Table
    n = len(vals)
    if route == "direct":
        return Vector(list(vals), name=name)
    if route == "copy":
        return Vector(list(vals), name=name).copy()
    if n == 0:
        return None
    pad = _pad_like(vals)
    if route == "slice":
        return Vector([pad] + list(vals) + [pad], name=name)[1:n + 1]
    if route == "mask":
        return Vector([pad] + list(vals), name=name)[[False] + [True] * n]
    if route == "lshift":
        if n < 2:
            return None
        v = Vector(list(vals[:1])) << Vector(list(vals[1:]))
        v.name = name
        return v
    if route == "assigned":
        v = Vector([pad] * n, name=name)
        for i, x in enumerate(vals):
            v[i] = x
        return v
    if route == "column-view":
        t = Table([Vector(list(vals), name=name), Vector(list(range(n)), name="__other")])
        return t.cols(0)
    if route == "sorted":
        if n < 2:
            return None
        order = list(range(n))[::-1]
        t = Table([Vector([vals[i] for i in order], name=name), Vector(order, name="__pos")]).sort_by("__pos")
        return t.cols(0)
    if route == "reversed-twice":
        return Vector(list(vals), name=name)[::-1][::-1]
    if route == "index-vector":
        return Vector(list(vals)[::-1], name=name)[Vector(list(range(n - 1, -1, -1)), dtype=int)]
    raise KeyError(route)


def vector_variant(vals, name, index):
    from serif import Vector
    route = VECTOR_ROUTES[index % len(VECTOR_ROUTES)]
    ref = Vector(list(vals), name=name)
    try:
        v = build_vector(vals, name, route)
    except Exception:
        v = None
    if v is not None and hasattr(v, "_underlying") and type(v).__name__ != "Table":
        rs, vs = ref.schema(), v.schema()
        if (same_list(list(v._underlying), list(vals)) and v._name == name
                and ((rs is None and vs is None) or (rs is not None and vs is not None and rs.kind is vs.kind and rs.nullable == vs.nullable))):
            return route, v
    return "direct", ref
