"""Virtual allocator for storage-tuple identities (DESIGN §2.2).

serif/vector.py calls ``id(...)`` as a module global, so ``serif.vector.id = alloc.vid`` replaces
the identity of every *non-empty storage tuple* by a virtual one, from outside the library.
The allocator keeps a strong reference to every tuple it has named (real addresses cannot be
recycled underneath it) and a sweep releases the tuples nobody else references any more -
exactly the objects CPython would have freed.

policy 'fresh'       : a new tuple always gets a never-used identity (no recycling at all);
policy 'recycle'     : deterministic CPython-like recycling: a new tuple receives the identity of the most recently
                       freed tuple of the same length (used for a second pass of the op-write-op histories);
policy 'adversarial' : when a new tuple is named, the explorer may answer with the identity of a
                       freed tuple that still has a live registration in the alias tracker
                       (an enumerated environment choice; see props/c15.py).
"""
from __future__ import annotations

import builtins
import sys


class VAlloc:
    def __init__(self, policy="fresh", chooser=None, sweep_every=48):
        self.policy = policy
        self.chooser = chooser          # callable(candidates:list[int]) -> index or None (fresh)
        self.map = {}                   # real id -> [tuple, vid]
        self.next = 1
        self.free = []                  # vids of freed tuples, oldest first
        self.named = 0
        self.sweep_every = sweep_every
        self.reuse_log = []
        self.freeby = {}                # recycle policy: tuple length -> stack of freed vids
        probe = (object(),)
        holder = [probe]
        self._base = sys.getrefcount(holder[0]) - 1   # refs seen by getrefcount when only `holder` + local hold it
        del probe
        # calibrate precisely: an entry list + the loop variable + getrefcount's argument
        ent = [(object(),), 0]
        t = ent[0]
        self._only_mine = sys.getrefcount(t)          # map entry + local t + argument
        del t

    def vid(self, obj):
        if type(obj) is not tuple or not obj:
            return builtins.id(obj)
        rid = builtins.id(obj)
        ent = self.map.get(rid)
        if ent is not None and ent[0] is obj:
            return ent[1]
        v = None
        if self.policy == "recycle":
            # CPython-like: a freed tuple's identity is handed to the next new tuple of the same length (LIFO)
            self.sweep()
            stack = self.freeby.get(len(obj))
            if stack:
                v = stack.pop()
                self.reuse_log.append(v)
        if self.policy == "adversarial" and self.chooser is not None:
            self.sweep()
            cands = self.reuse_candidates()
            if cands:
                pick = self.chooser(cands)
                if pick is not None:
                    v = cands[pick]
                    self.free.remove(v)
                    self.reuse_log.append(v)
        if v is None:
            v = self.next
            self.next += 1
        self.map[rid] = [obj, v]
        self.named += 1
        if self.policy == "fresh" and self.named % self.sweep_every == 0:
            self.sweep()
            if self.named % 4096 == 0:
                self.prune_registry()
        return v

    def prune_registry(self):
        """Fresh identities are never handed out twice, so a registry entry whose identity belongs to no live tuple and whose
        weak references are all dead can never be looked up again: in CPython the address would be reused and register()
        would prune it; here it would only pile up (one entry per storage tuple ever created, GBs in a long work unit)."""
        from serif.alias_tracker import _ALIAS_TRACKER
        reg = _ALIAS_TRACKER._registry
        live = {ent[1] for ent in self.map.values()}
        for k in [k for k, refs in reg.items() if isinstance(k, int) and k < self.next and k not in live and all(r() is None for r in refs)]:
            del reg[k]

    def sweep(self):
        """Release every tuple that only the allocator still references."""
        dead = []
        for rid, ent in self.map.items():
            t = ent[0]
            if sys.getrefcount(t) <= self._only_mine:
                dead.append(rid)
            del t
        if self.policy == "recycle":
            # Tuples found dead in the same sweep are pushed youngest first, so the OLDEST one ends up on top of the LIFO
            # stack: within one library call the short-lived temporaries die before the long-lived storage that the call
            # finally replaces, and CPython's free list hands out the most recently freed block first.
            dead = dead[::-1]
        for rid in dead:
            ent = self.map.pop(rid)
            if self.policy == "adversarial":
                self.free.append(ent[1])
            elif self.policy == "recycle":
                self.freeby.setdefault(len(ent[0]), []).append(ent[1])
        return len(dead)

    def reuse_candidates(self):
        """Freed vids that still have a LIVE object registered under them (reusing any other freed
        vid is indistinguishable from a fresh one: register() prunes dead references first)."""
        from serif.alias_tracker import _ALIAS_TRACKER
        reg = _ALIAS_TRACKER._registry
        out = []
        for v in self.free:
            refs = reg.get(v)
            if refs and any(r() is not None for r in refs):
                out.append(v)
        return out

    def vid_of(self, tup):
        if type(tup) is not tuple or not tup:
            return builtins.id(tup)
        ent = self.map.get(builtins.id(tup))
        if ent is not None and ent[0] is tup:
            return ent[1]
        return None


CURRENT = None


def install(policy="fresh", chooser=None):
    global CURRENT
    import sys
    import serif  # noqa
    CURRENT = VAlloc(policy, chooser)
    # every serif module that calls id() as a global sees the virtual identity
    for name, mod in list(sys.modules.items()):
        if (name == "serif" or name.startswith("serif.")) and mod is not None:
            mod.__dict__["id"] = CURRENT.vid
    return CURRENT


def uninstall():
    global CURRENT
    import sys
    for name, mod in list(sys.modules.items()):
        if (name == "serif" or name.startswith("serif.")) and mod is not None and "id" in mod.__dict__:
            del mod.__dict__["id"]
    CURRENT = None
