"""Reference models and shared oracles (DESIGN §6).  Plain Python, no serif code paths."""
from __future__ import annotations

import math
from datetime import date, datetime

NUM_CHAIN = [bool, int, float, complex]
TMP_CHAIN = [date, datetime]


# --------------------------------------------------------------------------------------
# observation
# --------------------------------------------------------------------------------------

def canon_elem(e):
    """Canonical, comparable, picklable image of one element (type-exact)."""
    if isinstance(e, float):
        if e != e:
            return ("float", "nan")
        return ("float", repr(e))
    t = type(e)
    if hasattr(e, "_underlying") and hasattr(e, "_dtype"):      # a nested vector: never repr() it
        return ("vector", e._name, tuple(canon_elem(x) for x in e._underlying))
    if t is tuple or t is list:
        return (t.__name__, tuple(canon_elem(x) for x in e))
    return (t.__name__, repr(e))


def schema_of(v):
    s = v.schema()
    if s is None:
        return None
    return (s.kind.__name__, bool(s.nullable))


def is_table(x):
    return type(x).__name__ == "Table"


def obs(x):
    """What 'exactly its previous contents, names and dtypes' means."""
    if is_table(x):
        cols = tuple(x._underlying)
        return ("T", x._name, tuple(obs(c) for c in cols), len(x))
    return ("V", x._name, tuple(canon_elem(e) for e in x._underlying), schema_of(x))


def plain(x):
    """Plain python values of a vector (list) or table (list of column lists)."""
    if is_table(x):
        return [list(c._underlying) for c in x._underlying]
    return list(x._underlying)


def same_value(a, b):
    """Exact equality of two scalars: same type, same value (NaN equals NaN, -0.0 != 0.0)."""
    return canon_elem(a) == canon_elem(b)


def same_list(a, b):
    a, b = list(a), list(b)
    return len(a) == len(b) and all(same_value(x, y) for x, y in zip(a, b))


# --------------------------------------------------------------------------------------
# dtype lattice (the specification of C04)
# --------------------------------------------------------------------------------------

def spec_kind(value):
    """Kind of a single non-None value according to the statement: its Python type."""
    return type(value)


def join_kinds(kinds):
    kinds = set(kinds)
    if not kinds:
        return None          # bottom: nothing but None seen
    if len(kinds) == 1:
        return next(iter(kinds))
    if kinds <= set(NUM_CHAIN):
        return max(kinds, key=NUM_CHAIN.index)
    if kinds <= set(TMP_CHAIN):
        return max(kinds, key=TMP_CHAIN.index)
    return object


def expected_dtype(values):
    """(kind, nullable) by the lattice; kind None = bottom (empty / all None)."""
    vals = list(values)
    ks = [spec_kind(v) for v in vals if v is not None]
    return (join_kinds(ks), any(v is None for v in vals))


def belongs(value, kind):
    """Does a non-None value belong to `kind`, counting only the documented widenings?"""
    if kind is object:
        return True
    t = type(value)
    if t is kind:
        return True
    # an instance of a SUBCLASS of a builtin kind (an IntEnum member, a str subclass, struct_time) is a value of that kind
    if t not in NUM_CHAIN and t not in TMP_CHAIN:
        for base in (bool, int, float, complex, str, bytes):
            if isinstance(value, base):
                t = base
                break
        else:
            import datetime as _dtm
            if isinstance(value, _dtm.datetime):
                t = _dtm.datetime
            elif isinstance(value, _dtm.date):
                t = _dtm.date
        if t is kind:
            return True
    if kind in NUM_CHAIN and t in NUM_CHAIN:
        return NUM_CHAIN.index(t) <= NUM_CHAIN.index(kind)
    if kind in TMP_CHAIN and t in TMP_CHAIN:
        return TMP_CHAIN.index(t) <= TMP_CHAIN.index(kind)
    if kind not in NUM_CHAIN and kind not in TMP_CHAIN and kind not in (str, bytes):
        # user classes / list / dict / tuple kinds: instance of that class
        try:
            return isinstance(value, kind)
        except TypeError:
            return False
    return False


def truthful(vec):
    """C03 invariant for one (non-table) vector.  Returns None or a symptom string."""
    vals = vec._underlying
    s = vec.schema()
    if s is None:
        if len(vals) > 0:
            return "nonempty-without-schema"
        return None
    if any(v is None for v in vals) and not s.nullable:
        return "none-in-non-nullable"
    for v in vals:
        if v is not None and not belongs(v, s.kind):
            return f"{type(v).__name__}-in-{s.kind.__name__}"
    return None


def close(a, b):
    if isinstance(a, float) or isinstance(b, float):
        if a is None or b is None:
            return a is b
        if isinstance(a, complex) or isinstance(b, complex):
            return abs(a - b) <= 1e-9 * max(1.0, abs(a), abs(b))
        if a != a or b != b:
            return (a != a) and (b != b)
        return math.isclose(a, b, rel_tol=1e-9, abs_tol=1e-12)
    return a == b and type(a) is type(b)


# --------------------------------------------------------------------------------------
# accessor-name sanitisation, re-implemented from the documented rules (C17 / C18)
# --------------------------------------------------------------------------------------
import re as _re

_RESERVED = None


def reserved_names():
    """Public attribute names of Vector and Table (what an accessor must never shadow)."""
    global _RESERVED
    if _RESERVED is None:
        from serif import Vector, Table
        out = set()
        for cls in (Vector, Table):
            for n in dir(cls):
                if not n.startswith("_"):
                    out.add(n.lower())
        _RESERVED = out
    return _RESERVED


def model_sanitize(name):
    """lower-case; runs of other characters -> one underscore; outer underscores stripped; leading digit prefixed
    with c; names that look like generated indexed accessors or that collide with a public method get a trailing _."""
    if not isinstance(name, str):
        name = str(name)
    s = _re.sub(r"[^a-z0-9_]+", "_", name.lower()).strip("_")
    if s == "":
        return None
    if s[0].isdigit():
        s = "c" + s
    if _re.match(r"^.+__\d+$", s):
        s += "_"
    import keyword
    if s in reserved_names() or keyword.iskeyword(s):
        s += "_"
    return s


def model_uniquify(names):
    """Assign unique names in order: first occurrence keeps the name, later ones get the smallest suffix >= 2 that is free."""
    used, out = set(), []
    for n in names:
        if n not in used:
            used.add(n)
            out.append(n)
            continue
        i = 2
        while f"{n}{i}" in used:
            i += 1
        used.add(f"{n}{i}")
        out.append(f"{n}{i}")
    return out
