"""./vcheck entry point: run / replay / all."""
from __future__ import annotations

import argparse
import importlib
import json
import os
import subprocess
import sys
import time

from . import core

HERE = os.path.dirname(os.path.dirname(os.path.abspath(__file__)))
KNOWN = os.path.join(HERE, "known_findings.json")
ALL_IDS = [f"C{i:02d}" for i in range(1, 21)]


def load_known(prop):
    try:
        data = json.load(open(KNOWN))
    except FileNotFoundError:
        return {}
    out = {}
    for e in data.get("findings", []):
        if e.get("property") == prop and e.get("status") == "open":
            out[e["signature"]] = e
    return out


def write_replay(prop, v: core.V, tier, seed):
    d = os.path.join(HERE, "replays", prop)
    os.makedirs(d, exist_ok=True)
    path = os.path.join(d, core.short_hash(v.sig) + ".json")
    rec = {"property": prop, "tier": tier, "seed": seed}
    rec.update(v.to_json())
    with open(path, "w") as f:
        json.dump(rec, f, indent=1, sort_keys=True)
    if v.py:
        with open(path[:-5] + ".py", "w") as f:
            f.write("# stand-alone reproduction (run with PYTHONPATH=/repo/src)\n" + v.py + "\n")
    return os.path.relpath(path, HERE)


def validate_evidence(path):
    """Validate against the given schema with the tooling venv's jsonschema (if present)."""
    schema = "/root/.vp/EVIDENCE.schema.json"
    if not os.path.exists(schema):
        return True, "schema file not present; skipped"
    code = (
        "import json,sys,jsonschema;"
        f"jsonschema.validate(json.load(open({path!r})), json.load(open({schema!r})))"
    )
    for exe in ("python3-vt", "/opt/veriftools/pyvenv/bin/python"):
        try:
            r = subprocess.run([exe, "-c", code], capture_output=True, text=True, timeout=60)
        except (FileNotFoundError, subprocess.TimeoutExpired):
            continue
        if r.returncode == 0:
            return True, "validated"
        return False, r.stderr[-800:]
    return True, "jsonschema not available; skipped"


def run_one(prop, tier, seed):
    core.import_serif()
    mod = importlib.import_module(f"props.{prop.lower()}")
    ctx = core.Ctx(prop, tier, seed)
    t0 = time.time()
    agg = mod.check(ctx)
    wall = time.time() - t0

    # ---- coverage goals (anti-vacuity): a check that explored nothing is a broken check
    goals = getattr(mod, "coverage_goals", None)
    goal_fail = []
    if goals:
        goal_fail = goals(ctx, agg)

    # ---- replay determinism: re-execute the recorded counterexamples twice
    known = load_known(prop)
    new, seen_known = [], []
    for sig, (n, v) in sorted(agg.viol.items()):
        if sig in known:
            seen_known.append((sig, n, v))
        else:
            new.append((sig, n, v))

    replayer = getattr(mod, "replay", None)
    flaky = []
    if replayer:
        for sig, n, v in new[:20]:
            for _ in range(2):
                core.reset_globals()
                try:
                    sigs = replayer(json.loads(json.dumps(v.to_json())))
                except Exception as e:
                    r = core.crash_to_agg(e, "replay")
                    if isinstance(r, tuple):
                        # the REPLAY helper itself failed (e.g. it does not know this kind of case description): the violation
                        # found by the exhaustive run stands, only the isolated re-execution is unavailable
                        print(f"[{prop}] note: isolated replay unavailable for {sig}: {type(e).__name__}")
                    sigs = None      # (otherwise: the library crashed again while replaying - reproduced)
                if sigs is not None and sig not in sigs:
                    flaky.append(sig)
                    break

    stale = [s for s in known if s not in agg.viol]

    cov = {
        "states": int(agg.states),
        "transitions": int(agg.transitions),
        "traces_validated_against_impl": int(agg.compared),
        "evaluations": int(agg.evals),
        "distinct_nontrivial": int(agg.nontrivial),
        "rule": getattr(mod, "RULE", ""),
        "samples": agg.samples or ["(none)"],
        "exhaustive": bool(agg.notes.get("exhaustive", True)),
        "bound": agg.notes.get("bound", ""),
        "outcomes": dict(agg.outcomes.most_common(60)),
        "sites": dict(agg.sites.most_common(80)),
        "skipped_not_judged": dict(agg.skipped.most_common(40)),
        "known_findings_observed": {s: n for s, n, _ in seen_known},
        "known_findings_not_observed": stale,
        "new_violation_signatures": {s: n for s, n, _ in new},
        "notes": {k: v for k, v in agg.notes.items() if k not in ("exhaustive", "bound")},
        "serif_src": core.SERIF_SRC,
        "hash_seed": os.environ.get("PYTHONHASHSEED"),
    }
    ev = {
        "property_id": prop, "tier": tier, "seed": seed, "level": "model_checking",
        "coverage": cov,
        "assumptions": getattr(mod, "ASSUMPTIONS", []),
        "wall_s": round(wall, 3),
        "violations": len(new),
    }
    evp = os.path.join(HERE, "evidence", f"{prop}.json")
    os.makedirs(os.path.dirname(evp), exist_ok=True)
    with open(evp, "w") as f:
        json.dump(ev, f, indent=1, sort_keys=True, default=repr)
    ok, msg = validate_evidence(evp)

    print(f"[{prop}] tier={tier} seed={seed} states={agg.states} transitions={agg.transitions} "
          f"compared={agg.compared} nontrivial={agg.nontrivial} wall={wall:.1f}s")
    if agg.outcomes:
        print(f"[{prop}] outcomes: " + ", ".join(f"{k}={v}" for k, v in agg.outcomes.most_common(12)))
    for sig, n, v in seen_known:
        print(f"KNOWN-FINDING: property={prop} {known[sig].get('what', sig)} [{sig}] x{n}")
    for s in stale:
        print(f"[{prop}] note: listed finding not observed in this run (stale?): {s}")
    rc = 0
    for sig, n, v in new:
        path = write_replay(prop, v, tier, seed)
        print(f"VIOLATION property={prop} replay={path}")
        print(f"    signature: {sig}  (x{n})")
        print(f"    case: {json.dumps(core.jsonable(v.case))[:400]}")
        print(f"    expected: {str(core.jsonable(v.expected))[:300]}")
        print(f"    observed: {str(core.jsonable(v.observed))[:300]}")
        rc = 1
    if flaky:
        # The enumeration itself is deterministic; a counterexample that does not reproduce when its single case is replayed
        # in isolation depends on calls made earlier in the same process (module-level state of the library).  It is reported
        # as a violation all the same - the artefact says so.
        print(f"[{prop}] note: not reproducible in isolation (depends on earlier calls in the same process): {flaky}")
    if core.HARNESS_ERRORS and rc == 1:
        print(f"[{prop}] note: {len(core.HARNESS_ERRORS)} work unit(s) crashed in harness code (see stderr); the violations above come from the other units")
    elif core.HARNESS_ERRORS:
        sys.stderr.write(f"HARNESS-ERROR: {len(core.HARNESS_ERRORS)} work unit(s) crashed in harness code and no violation was found: {core.HARNESS_ERRORS[:3]}\n")
        return 2
    if goal_fail and rc == 1:
        # violations were found: an outcome class that never occurred is most likely their consequence, not a vacuous exploration
        print(f"[{prop}] note: outcome classes that never occurred in this run: {goal_fail}")
    elif goal_fail:
        sys.stderr.write(f"HARNESS-ERROR: coverage goals missed (exploration vacuous?): {goal_fail}\n")
        return 2
    if not ok:
        sys.stderr.write(f"HARNESS-ERROR: evidence file does not validate: {msg}\n")
        return 2
    return rc


def do_replay(path):
    core.import_serif()
    rec = json.load(open(path))
    prop = rec["property"]
    mod = importlib.import_module(f"props.{prop.lower()}")
    core.reset_globals()
    sigs = mod.replay(rec)
    print(f"replay {path}: signatures observed = {sorted(sigs or [])}")
    if sigs and rec["signature"] in sigs:
        print(f"VIOLATION property={prop} replay={path}")
        return 1
    print("not reproduced")
    return 0


def main(argv=None):
    ap = argparse.ArgumentParser(prog="vcheck")
    sub = ap.add_subparsers(dest="cmd", required=True)
    r = sub.add_parser("run")
    r.add_argument("prop")
    r.add_argument("--tier", default=os.environ.get("VERIF_TIER", "quick"), choices=["quick", "thorough"])
    rp = sub.add_parser("replay")
    rp.add_argument("path")
    al = sub.add_parser("all")
    al.add_argument("--tier", default="quick", choices=["quick", "thorough"])
    a = ap.parse_args(argv)
    try:
        seed = int(os.environ.get("VERIF_SEED", "0"))
    except ValueError:
        seed = 0
    if a.cmd == "run":
        sys.exit(run_one(a.prop.upper(), a.tier, seed))
    if a.cmd == "replay":
        sys.exit(do_replay(a.path))
    if a.cmd == "all":
        worst = 0
        for p in ALL_IDS:
            if not os.path.exists(os.path.join(HERE, "props", p.lower() + ".py")):
                continue
            rc = subprocess.call([os.path.join(HERE, "vcheck"), "run", p, "--tier", a.tier])
            worst = max(worst, rc)
        sys.exit(worst)


if __name__ == "__main__":
    main()
