"""Shared machinery: violation records, aggregation, parallel map, global-state reset.

Everything here is deliberately boring.  A *check* (props/cXX.py) enumerates a finite space
completely, executes the real serif code on every element and compares with a reference
model; it reports into an ``Agg``.  Work is split into picklable *units*; ``pmap`` runs units
in forked worker processes and the parent merges the per-unit ``Agg``s.
"""
from __future__ import annotations

import collections
import hashlib
import json
import multiprocessing as mp
import os
import sys
import time
import warnings

warnings.simplefilter("ignore")

SERIF_SRC = os.environ.get("SERIF_SRC", "/repo/src")


def import_serif():
    """Import serif and insist that it comes from the tree under test."""
    import serif  # noqa
    path = os.path.realpath(serif.__file__)
    want = os.path.realpath(SERIF_SRC)
    if not path.startswith(want + os.sep):
        sys.stderr.write(f"HARNESS-ERROR: serif imported from {path}, expected under {want}\n")
        sys.exit(2)
    return serif


def warmup():
    """A fixed workload run at the start of every work unit, so that every case is executed in a process
    whose library has already been USED (module-level memos, registered dialects, caches are filled by
    calls on other objects first).  Nothing is checked here; failures are ignored."""
    import io
    from datetime import date, datetime
    import serif
    from serif import Vector, Table, read_csv
    jobs = [
        lambda: [Vector([x, None]).__setitem__(0, None) for x in (1, 1.5, "a", True, date(2020, 1, 1), 1j)],
        lambda: [Vector([a, b]) for a, b in ((1, 2.5), (True, 1), (None, 1.5), (1, "a"), (date(2020, 1, 1), datetime(2020, 1, 1)))],
        lambda: Vector([1, None, 3]) * Vector([1, 1, 0.5]),
        lambda: Vector([1, 2]).__setitem__(0, 1.5),
        lambda: [read_csv(io.StringIO("a;b\n1;2\n"), delimiter=d) for d in (";", "|", ",")],
        lambda: Table({"k": [1, 1, 2], "v": [1, None, 3]}).aggregate(over="k", sum_over="v", count_over="v"),
        lambda: Table({"k": [1, 1, 2], "v": [1, None, 3]}).window(over="k", sum_over="v"),
        lambda: Table({"k": [1, 2, 2]}).join(Table({"k": [2, 2], "p": [5, 6]}), "k", "k", expect="many_to_many"),
        lambda: Table({"k": [2, 1]}).sort_by("k"),
        lambda: (serif.set_repr_rows(4), repr(Vector(list(range(9)))), serif.set_repr_rows(None)),
        lambda: Vector([5, 3]).bit_length(),
        lambda: Vector([1, None]).isna(),
    ]
    for j in jobs:
        try:
            j()
        except Exception:
            pass
    try:
        serif.set_repr_rows(None)
    except Exception:
        pass


_RESETS = [0]


def reset_globals(policy="fresh"):
    """Bring serif's process-wide state to its initial value (DESIGN §2.1).

    Automatic cyclic garbage collection is switched off in the checking processes: serif objects form no reference
    cycles, so exact reference counting decides every lifetime, and a collection that happens to run at an allocation
    threshold would be a source of nondeterminism we do not own.  (Cycles created by harness objects such as
    tracebacks are swept explicitly every few thousand resets; the registry is cleared at every reset, so objects that
    linger in a cycle cannot influence a later execution.)"""
    import gc
    if gc.isenabled():
        gc.disable()
    _RESETS[0] += 1
    if _RESETS[0] % 4000 == 0:
        gc.collect()
    import serif
    from serif.alias_tracker import _ALIAS_TRACKER
    _ALIAS_TRACKER._registry.clear()
    serif.set_repr_rows(None)
    # fresh-only virtual identities for storage tuples: no address recycling inside a check
    # (the recycling hazard itself is owned and enumerated by C15)
    from . import valloc
    valloc.install(policy)


# --------------------------------------------------------------------------------------
# violations
# --------------------------------------------------------------------------------------

def jsonable(x, depth=0):
    """Best-effort conversion of a case description into JSON."""
    if depth > 8:
        return repr(x)
    if x is None or isinstance(x, (bool, int, str)):
        return x
    if isinstance(x, float):
        if x != x or x in (float("inf"), float("-inf")):
            return repr(x)
        return x
    if isinstance(x, (list, tuple)):
        return [jsonable(e, depth + 1) for e in x]
    if isinstance(x, dict):
        return {str(k): jsonable(v, depth + 1) for k, v in x.items()}
    return repr(x)


class V:
    """One violation: signature = site|symptom; case = how to reproduce (JSON-able)."""
    __slots__ = ("site", "symptom", "case", "expected", "observed", "py", "size")

    def __init__(self, site, symptom, case=None, expected=None, observed=None, py=None, size=None):
        self.site = site
        self.symptom = symptom
        # plain data only: a violation travels from a worker process to the parent (a live library object inside it may not
        # survive pickling - a Row cannot be unpickled, which used to take the whole process pool down) and into JSON artefacts
        self.case = jsonable(case)
        self.expected = jsonable(expected)
        self.observed = jsonable(observed)
        self.py = py
        self.size = size if size is not None else len(repr(self.case))

    @property
    def sig(self):
        return f"{self.site}|{self.symptom}"

    def to_json(self):
        return {
            "site": self.site, "symptom": self.symptom, "signature": self.sig,
            "case": jsonable(self.case), "expected": jsonable(self.expected),
            "observed": jsonable(self.observed), "py": self.py,
        }


class Agg:
    """Counters of one run (mergeable)."""

    def __init__(self):
        self.evals = 0            # inputs / executions
        self.transitions = 0      # applications of real library operations
        self.states = 0           # distinct inputs or canonical states
        self.compared = 0         # observations compared with the reference model
        self.nontrivial = 0       # distinct non-trivial cases by the check's rule
        self.outcomes = collections.Counter()   # anti-vacuity: classes of outcome
        self.sites = collections.Counter()      # per operation/site counts
        self.skipped = collections.Counter()    # cases not judged, with reason
        self.viol = {}            # sig -> [count, V(smallest)]
        self.samples = []
        self.notes = {}
        self.digests = {}                       # unit key -> hex digest

    # -- recording -------------------------------------------------------------
    def violation(self, v: V):
        ent = self.viol.get(v.sig)
        if ent is None:
            self.viol[v.sig] = [1, v]
        else:
            ent[0] += 1
            if v.size < ent[1].size:
                ent[1] = v

    def sample(self, s, cap=6):
        if len(self.samples) < cap:
            self.samples.append(jsonable(s))

    def merge(self, o: "Agg"):
        self.evals += o.evals
        self.transitions += o.transitions
        self.states += o.states
        self.compared += o.compared
        self.nontrivial += o.nontrivial
        self.outcomes.update(o.outcomes)
        self.sites.update(o.sites)
        self.skipped.update(o.skipped)
        for sig, (n, v) in o.viol.items():
            ent = self.viol.get(sig)
            if ent is None:
                self.viol[sig] = [n, v]
            else:
                ent[0] += n
                if v.size < ent[1].size:
                    ent[1] = v
        for s in o.samples:
            if len(self.samples) < 12:
                self.samples.append(s)
        for k, val in o.notes.items():
            if isinstance(val, (int, float)) and isinstance(self.notes.get(k), (int, float)):
                self.notes[k] += val
            elif isinstance(val, list) and isinstance(self.notes.get(k), list):
                self.notes[k].extend(val)
            elif isinstance(val, dict) and isinstance(self.notes.get(k), dict):
                self.notes[k].update(val)
            else:
                self.notes[k] = val
        self.digests.update(o.digests)


# --------------------------------------------------------------------------------------
# parallel map over units
# --------------------------------------------------------------------------------------

_WORK_FN = None


def crash_to_agg(e, unit):
    """An exception escaping from *library* code where the check expected none is a violation
    (site = innermost serif function); one escaping from harness code is a harness error."""
    import traceback
    tb = traceback.extract_tb(e.__traceback__)
    inner = tb[-1] if tb else None
    src = os.path.realpath(SERIF_SRC)
    if inner is not None and os.path.realpath(inner.filename).startswith(src + os.sep):
        a = Agg()
        mod = os.path.splitext(os.path.basename(inner.filename))[0]
        a.violation(V(f"crash.{mod}.{inner.name}", f"raises-{type(e).__name__}",
                      {"unit": repr(unit)[:300], "error": repr(e)[:300],
                       "trace": [f"{os.path.basename(f.filename)}:{f.lineno}:{f.name}" for f in tb[-6:]]}))
        a.outcomes["unit-crashed-in-library"] += 1
        return a
    return ("__HARNESS_ERROR__", f"unit {unit!r}: {e!r}\n{traceback.format_exc()}")


def _call(unit):
    warnings.simplefilter("ignore")
    try:
        reset_globals()
        if os.environ.get("VERIF_NO_WARMUP") != "1":
            warmup()
            reset_globals()
        return _WORK_FN(unit)
    except BaseException as e:  # a harness crash must not look like "no violation"
        return crash_to_agg(e, unit)


def guarded(fn, *args):
    """Run a parent-process engine with the same crash policy as worker units."""
    try:
        return fn(*args)
    except Exception as e:
        r = crash_to_agg(e, getattr(fn, "__name__", "engine"))
        if isinstance(r, tuple):
            sys.stderr.write("HARNESS-ERROR: " + r[1] + "\n")
            sys.exit(2)
        return r


def ncores():
    try:
        n = len(os.sched_getaffinity(0))
    except Exception:
        n = os.cpu_count() or 1
    return max(1, min(n, int(os.environ.get("VERIF_JOBS", "16"))))


HARNESS_ERRORS = []


def pmap(fn, units, jobs=None):
    """Run fn(unit) -> Agg (or any picklable) for every unit, in forked workers."""
    global _WORK_FN
    units = list(units)
    jobs = jobs or ncores()
    _WORK_FN = fn
    if jobs == 1 or len(units) <= 1:
        out = [_call(u) for u in units]
    else:
        # ProcessPoolExecutor (not mp.Pool): a worker that dies (out of memory, signal) raises BrokenProcessPool here
        # instead of hanging the pool forever
        from concurrent.futures import ProcessPoolExecutor
        from concurrent.futures.process import BrokenProcessPool
        try:
            with ProcessPoolExecutor(min(jobs, len(units)), mp_context=mp.get_context("fork")) as pool:
                out = list(pool.map(_call, units, chunksize=1))
        except BrokenProcessPool as e:
            sys.stderr.write("HARNESS-ERROR: a worker process died (" + repr(e)[:200] + ")\n")
            sys.exit(2)
    # A unit that crashed in HARNESS code is remembered, not fatal at once: if other units report violations those are what the run
    # says (a change to the library can trip the harness in one unit and break the property visibly in another); the runner turns
    # a remembered crash into exit 2 when no violation was found - a crashed unit is never counted as "held".
    clean = []
    for r in out:
        if isinstance(r, tuple) and r and r[0] == "__HARNESS_ERROR__":
            sys.stderr.write("HARNESS-ERROR in worker: " + r[1] + "\n")
            HARNESS_ERRORS.append(r[1].split("\n")[0][:300])
            clean.append(Agg())
        else:
            clean.append(r)
    return clean


def merge_all(aggs):
    a = Agg()
    for x in aggs:
        a.merge(x)
    return a


class Ctx:
    def __init__(self, prop, tier, seed):
        self.prop = prop
        self.tier = tier
        self.seed = seed
        self.t0 = time.time()

    @property
    def thorough(self):
        return self.tier == "thorough"

    def pick(self, quick, thorough):
        return thorough if self.thorough else quick


def short_hash(s: str) -> str:
    return hashlib.sha1(s.encode()).hexdigest()[:12]
