"""Further designated join families, each enumerated completely (shared by C09, C10, C11).

skew      : tables of very different sizes (1..3 rows against 7..33 rows, both ways) - code paths chosen by a size ratio
args      : the key specifications are list OBJECTS owned by the caller: they must come back unchanged, and the same
            objects must work for a second join of other tables
dupnames  : a table that stores the same column name twice; a key given by that name is the column table[name] returns
twice     : two joins (every method x every holding expectation, both orders) on the SAME table objects: the second
            answer equals the answer of freshly built tables (nothing may be left behind on a table by a join)
self      : a table joined with itself on different composite keys that share their first column
expectstr : the expect argument as a string built at run time (equal, not identical, to the literals in the source)

Every family judges the cardinality expectation too: SerifValueError iff a required uniqueness fails; when it holds the
rows are those of the reference nested-loop join.
"""
from __future__ import annotations

import hashlib
import itertools

from .core import Agg, V
from .models import obs
from . import joinspace as js

VALID = {"one_to_one": (True, True), "many_to_one": (False, True), "one_to_many": (True, False), "many_to_many": (False, False)}
METHODS = ("inner_join", "join", "full_join")


def tbl(cols):
    from serif import Table, Vector
    return Table([Vector(list(v), name=nm) for nm, v in cols])


def judge(agg, site, case, thunk, method, ex, lcols, rcols, lkeys, rkeys, h=None, observers=()):
    """run one join; compare verdict and rows with the reference; returns the result table or None"""
    from serif.errors import SerifValueError
    need_l, need_r = VALID[ex]
    must_raise = (need_l and not js.unique(lkeys)) or (need_r and not js.unique(rkeys))
    before = [obs(o) for o in observers]
    agg.evals += 1; agg.transitions += 1; agg.compared += 1
    try:
        res = thunk()
        raised = None
    except SerifValueError as e:
        res, raised = None, e
    except Exception as e:
        if type(e).__name__ == "_NotJudged":
            raise
        agg.violation(V(site, "raises-" + type(e).__name__, case, None, repr(e)[:100]))
        return None
    if [obs(o) for o in observers] != before:
        agg.violation(V(site, "input-modified", case))
        return None
    if must_raise and raised is None:
        agg.violation(V(site, "accepts-violated-expectation", case, "SerifValueError", js.result_rows(res)))
        return None
    if not must_raise and raised is not None:
        agg.violation(V(site, "refuses-holding-expectation", case, "rows", repr(raised)[:100]))
        return None
    if must_raise:
        agg.outcomes["refused-as-required"] += 1
        return None
    want = js.REF[method](lcols, rcols, lkeys, rkeys)
    got = js.result_rows(res)
    if h is not None:
        js.digest_update(h, got)
    sym = js.classify_rows(got, want)
    if sym:
        agg.violation(V(site, sym, case, want, got))
        return None
    agg.outcomes["extra-agree"] += 1
    return res


def expects_for(methods, all_expects):
    return list(VALID) if all_expects else ["many_to_many"]


# ----------------------------------------------------------------------------------------------------------------
def fam_skew(agg, h, methods, all_expects):
    small_sets = []
    for n in (1, 2, 3):
        for ks in itertools.product([0, 1], repeat=n):
            small_sets.append([(k,) for k in ks])
    for small in small_sets:
        n = len(small)
        for m in sorted({8 * n - 1, 8 * n, 8 * n + 1, 16 * n + 1, 33}):
            for big_kind, big in (("cycle3", [(k % 3,) for k in range(m)]), ("unique", [(k,) for k in range(m)]), ("one-dup", [(k,) for k in range(m - 1)] + [(0,)])):
                for small_side in ("L", "R"):
                    lkeys, rkeys = (small, big) if small_side == "L" else (big, small)
                    lcols = [("k0", [k[0] for k in lkeys]), ("lp", [100 + i for i in range(len(lkeys))])]
                    rcols = [("k0", [k[0] for k in rkeys]), ("rp", [200 + i for i in range(len(rkeys))])]
                    agg.states += 1; agg.nontrivial += 1
                    for method in methods:
                        for ex in expects_for(methods, all_expects):
                            for form in ("name", "external"):
                                case = {"family": "skewed sizes", "rows": [len(lkeys), len(rkeys)], "small_side_keys": [k[0] for k in small], "big_side": big_kind,
                                        "small_side": small_side, "method": method, "expect": ex, "form": form}
                                L, R = tbl(lcols), tbl(rcols)
                                if form == "name":
                                    lon, ron = "k0", "k0"
                                else:
                                    from serif import Vector
                                    lon, ron = Vector([k[0] for k in lkeys]), Vector([k[0] for k in rkeys])
                                judge(agg, f"{method}.skew", case, lambda: getattr(L, method)(R, left_on=lon, right_on=ron, expect=ex),
                                      method, ex, lcols, rcols, lkeys, rkeys, h, (L, R))


def _two_tables(seed):
    """deterministic little family of (lcols, rcols, lkeys, rkeys) with 2 key columns a, b"""
    pats = [
        ([(1, 1), (1, 2), (2, 1)], [(1, 1), (2, 1), (2, 2)]),
        ([(1, 1), (1, 1), (2, 2)], [(1, 1), (2, 2), (3, 3)]),
        ([(2, 1), (1, 2), (1, 1)], [(1, 2), (1, 2), (2, 1)]),
        ([(1, None), (None, 1), (1, 1)], [(1, 1), (None, 1), (1, None)]),
    ]
    lk, rk = pats[seed % len(pats)]
    lcols = [("a", [k[0] for k in lk]), ("b", [k[1] for k in lk]), ("lp", [100 + i for i in range(len(lk))])]
    rcols = [("a", [k[0] for k in rk]), ("b", [k[1] for k in rk]), ("rp", [200 + i for i in range(len(rk))])]
    return lcols, rcols, lk, rk


def fam_args(agg, h, methods, all_expects):
    from serif import Vector
    for s1 in range(4):
        for s2 in range(4):
            if s1 == s2:
                continue
            for nkeys in (1, 2):
                for form in ("name", "column-of-first-tables", "external-of-first-tables"):
                    for method in methods:
                        lc1, rc1, lk1, rk1 = _two_tables(s1)
                        lc2, rc2, lk2, rk2 = _two_tables(s2)
                        cut = (lambda ks: [k[:nkeys] for k in ks])
                        L1, R1, L2, R2 = tbl(lc1), tbl(rc1), tbl(lc2), tbl(rc2)
                        names = ["a", "b"][:nkeys]
                        if form == "name":
                            KL, KR = list(names), list(names)
                        elif form == "column-of-first-tables":
                            KL, KR = [L1[n_] for n_ in names], [R1[n_] for n_ in names]
                        else:
                            KL = [Vector([k[j] for k in lk1]) for j in range(nkeys)]
                            KR = [Vector([k[j] for k in rk1]) for j in range(nkeys)]
                        idl, idr = list(KL), list(KR)
                        case = {"family": "caller-owned key lists", "keys": nkeys, "form": form, "method": method, "first_tables": s1, "second_tables": s2}
                        agg.states += 1; agg.nontrivial += 1
                        judge(agg, f"{method}.args", dict(case, step="first join"), lambda: getattr(L1, method)(R1, left_on=KL, right_on=KR, expect="many_to_many"),
                              method, "many_to_many", lc1, rc1, cut(lk1), cut(rk1), h, (L1, R1))
                        same = len(KL) == len(idl) and len(KR) == len(idr) and all(a is b for a, b in zip(KL + KR, idl + idr))
                        if not same:
                            agg.violation(V(f"{method}.args", "join-changed-the-callers-key-list", case, repr(idl)[:80], repr(KL)[:80]))
                            continue
                        if form == "name":
                            # the very same list objects name the key columns of two OTHER tables
                            judge(agg, f"{method}.args", dict(case, step="second join, other tables, same list objects"),
                                  lambda: getattr(L2, method)(R2, left_on=KL, right_on=KR, expect="many_to_many"),
                                  method, "many_to_many", lc2, rc2, cut(lk2), cut(rk2), h, (L2, R2))


def fam_dupnames(agg, h, methods, all_expects):
    """a stored name that occurs twice: the key 'k' is the column t['k'] returns (the join by name equals the join by that column)"""
    layouts = [("k", "p", "k"), ("k", "k", "p"), ("p", "k", "k")]
    keysets = [([1, 2, 2], [2, 1, 3]), ([1, 1, 2], [1, 2, 2]), ([3, None, 1], [None, 1, 1])]
    for lay_l in layouts + [("k", "p")]:
        for lay_r in layouts + [("k", "p")]:
            if lay_l == ("k", "p") and lay_r == ("k", "p"):
                continue
            for lk, rk in keysets:
                def cols(lay, ks, base):
                    out, seenk = [], 0
                    for nm in lay:
                        if nm == "k":
                            vals = list(ks) if seenk == 0 else [(x * 7 % 5) if x is not None else 4 for x in reversed(ks)]     # the later namesake: other contents
                            seenk += 1
                        else:
                            vals = [base + i for i in range(len(ks))]
                        out.append((nm, vals))
                    return out
                lcols, rcols = cols(lay_l, lk, 100), cols(lay_r, rk, 200)
                agg.states += 1; agg.nontrivial += 1
                for method in methods:
                    L, R = tbl(lcols), tbl(rcols)
                    lkeys = [(x,) for x in L["k"]._underlying]
                    rkeys = [(x,) for x in R["k"]._underlying]
                    case = {"family": "repeated column name", "left_columns": lcols, "right_columns": rcols, "method": method}
                    judge(agg, f"{method}.dupnames", case, lambda: getattr(L, method)(R, left_on="k", right_on="k", expect="many_to_many"),
                          method, "many_to_many", lcols, rcols, lkeys, rkeys, h, (L, R))


def fam_twice(agg, h, methods_all, all_expects):
    """(method1, expect1) then (method2, expect2) on the same two table objects; optionally with the roles swapped in between"""
    keysets = [([1, 2, 3], [2, 3, 4]), ([1, 1, 2], [1, 2, 3]), ([1, 2], [1, 1, 2, 5]), ([5, 1, 2], [1, 2, 7, 8])]
    for lk, rk in keysets:
        lkeys, rkeys = [(k,) for k in lk], [(k,) for k in rk]
        lcols = [("k0", list(lk)), ("lp", [100 + i for i in range(len(lk))])]
        rcols = [("k0", list(rk)), ("rp", [200 + i for i in range(len(rk))])]

        def holds(ex, a, b):
            nl, nr = VALID[ex]
            return not ((nl and not js.unique(a)) or (nr and not js.unique(b)))
        for m1 in METHODS:
            for e1 in VALID:
                for m2 in methods_all:
                    for e2 in (VALID if all_expects else ["many_to_many", "one_to_one"]):
                        for second in ("same-roles", "swapped-roles"):
                            agg.states += 1; agg.nontrivial += 1
                            L, R = tbl(lcols), tbl(rcols)
                            case = {"family": "two joins on the same table objects", "left_keys": lk, "right_keys": rk,
                                    "first": [m1, e1], "second": [m2, e2], "roles": second}
                            try:
                                getattr(L, m1)(R, left_on="k0", right_on="k0", expect=e1)
                            except Exception:
                                pass
                            if second == "same-roles":
                                judge(agg, f"{m2}.after-{m1}", case, lambda: getattr(L, m2)(R, left_on="k0", right_on="k0", expect=e2),
                                      m2, e2, lcols, rcols, lkeys, rkeys, h, (L, R))
                            else:
                                judge(agg, f"{m2}.after-{m1}", case, lambda: getattr(R, m2)(L, left_on="k0", right_on="k0", expect=e2),
                                      m2, e2, rcols, lcols, rkeys, lkeys, h, (L, R))


def fam_self(agg, h, methods, all_expects):
    """t joined with t: the first key pair is the same column on both sides, the second differs"""
    rows = [
        {"dept": [1, 1, 2, 2], "emp": [1, 2, 1, 2], "mgr": [1, 1, 2, 2]},      # (dept, emp) unique, (dept, mgr) duplicated
        {"dept": [1, 1, 2], "emp": [1, 2, 1], "mgr": [2, 1, 1]},              # both unique
        {"dept": [1, 1, 1], "emp": [1, 1, 2], "mgr": [1, 2, 2]},              # both duplicated
    ]
    for data in rows:
        cols = [(nm, list(v)) for nm, v in data.items()]
        for lnames, rnames in ((["dept", "mgr"], ["dept", "emp"]), (["dept", "emp"], ["dept", "mgr"]), (["dept", "emp"], ["dept", "emp"]),
                               (["mgr", "dept"], ["emp", "dept"]), (["mgr"], ["emp"])):
            lkeys = list(zip(*[data[n_] for n_ in lnames]))
            rkeys = list(zip(*[data[n_] for n_ in rnames]))
            agg.states += 1; agg.nontrivial += 1
            for method in methods:
                for ex in VALID:
                    for form in ("name", "column"):
                        t = tbl(cols)
                        lon = list(lnames) if form == "name" else [t[n_] for n_ in lnames]
                        ron = list(rnames) if form == "name" else [t[n_] for n_ in rnames]
                        case = {"family": "self-join", "table": data, "left_on": lnames, "right_on": rnames, "method": method, "expect": ex, "form": form}
                        judge(agg, f"{method}.self", case, lambda: getattr(t, method)(t, left_on=lon, right_on=ron, expect=ex),
                              method, ex, cols, cols, lkeys, rkeys, h, (t,))


def fam_expectstr(agg, h, methods, all_expects):
    keysets = [([1, 2], [1, 2]), ([1, 1], [1, 2]), ([1, 2], [1, 1]), ([1, 1], [1, 1])]
    for lk, rk in keysets:
        lkeys, rkeys = [(k,) for k in lk], [(k,) for k in rk]
        lcols = [("k0", list(lk)), ("lp", [100 + i for i in range(len(lk))])]
        rcols = [("k0", list(rk)), ("rp", [200 + i for i in range(len(rk))])]
        agg.states += 1; agg.nontrivial += 1
        for method in methods:
            for ex in VALID:
                for how in ("joined", "sliced", "formatted", "str-subclass"):
                    l_, r_ = ex.split("_to_")
                    if how == "joined":
                        e = "_".join([l_, "to", r_])
                    elif how == "sliced":
                        e = ("  " + ex + "  ")[2:-2]
                    elif how == "formatted":
                        e = "%s_to_%s" % (l_, r_)
                    else:
                        e = _S(ex)
                    L, R = tbl(lcols), tbl(rcols)
                    case = {"family": "expect string built at run time", "left_keys": lk, "right_keys": rk, "method": method, "expect": ex, "built": how}
                    judge(agg, f"{method}.expectstr", case, lambda: getattr(L, method)(R, left_on="k0", right_on="k0", expect=e),
                          method, ex, lcols, rcols, lkeys, rkeys, h, (L, R))


def fam_namesake(agg, h, methods, all_expects):
    """a key given as a VECTOR is that vector, whatever its name: here it carries the name of a table column that holds other
    values (a detached handle after the column was replaced, a vector edited after the table was built from it, a derived key
    that kept the name); also on a self-join, where the left key is such a namesake of the right key column"""
    from serif import Vector, Table
    keysets = [([1, 2, 2], [2, 1, 3]), ([1, 1, 2], [1, 2, 2]), ([3, None, 1], [None, 1, 1]), ([1, 2, 3], [1, 2, 3])]
    for lk, rk in keysets:
        lkeys, rkeys = [(x,) for x in lk], [(x,) for x in rk]
        decoy_l = [(x * 7 % 5) if x is not None else 4 for x in reversed(lk)]
        decoy_r = [(x * 3 % 4) if x is not None else 0 for x in reversed(rk)]
        agg.states += 1; agg.nontrivial += 1
        for how in ("replaced-column", "built-then-edited", "derived-keeps-name", "plain-named-vector"):
            for method in methods:
                for ex in (VALID if all_expects else ["many_to_many"]):
                    # tables whose column 'k' holds DECOY values; the real keys travel in vectors named 'k'
                    lcols = [("k", list(decoy_l)), ("lp", [100 + i for i in range(len(lk))])]
                    rcols = [("k", list(decoy_r)), ("rp", [200 + i for i in range(len(rk))])]
                    try:
                        if how == "replaced-column":
                            L = tbl([("k", list(lk)), lcols[1]]); R = tbl([("k", list(rk)), rcols[1]])
                            lon, ron = L.k, R.k                      # handles on the old columns
                            L.k = list(decoy_l); R.k = list(decoy_r)
                        elif how == "built-then-edited":
                            lon, ron = Vector(list(decoy_l), name="k"), Vector(list(decoy_r), name="k")
                            L = Table([lon, Vector(lcols[1][1], name="lp")]); R = Table([ron, Vector(rcols[1][1], name="rp")])
                            for i, x in enumerate(lk):
                                lon[i] = x
                            for i, x in enumerate(rk):
                                ron[i] = x
                        elif how == "derived-keeps-name":
                            L, R = tbl(lcols), tbl(rcols)
                            src_l, src_r = Vector(list(lk) + [0], name="k"), Vector(list(rk) + [0], name="k")
                            lon, ron = src_l[0:len(lk)], src_r[0:len(rk)]
                        else:
                            L, R = tbl(lcols), tbl(rcols)
                            lon, ron = Vector(list(lk), name="k"), Vector(list(rk), name="k")
                    except Exception as e:
                        agg.skipped["namesake-setup-refused-" + type(e).__name__] += 1
                        continue
                    if list(lon._underlying) != list(lk) or list(ron._underlying) != list(rk) or list(L["k"]._underlying) != decoy_l:
                        agg.skipped["namesake-setup-not-reached"] += 1
                        continue
                    case = {"family": "key vector that carries a column's name", "how": how, "left_keys": lk, "right_keys": rk, "method": method, "expect": ex}
                    judge(agg, f"{method}.namesake", case, lambda: getattr(L, method)(R, left_on=lon, right_on=ron, expect=ex),
                          method, ex, lcols, rcols, lkeys, rkeys, h, (L, R))
        # self-join: right key is the table's column 'id' (unique), left key a detached vector named 'id' with repeats
        for method in methods:
            for ex in VALID:
                cols = [("id", [1, 2, 3, 4]), ("p", [10, 20, 30, 40])]
                t = tbl(cols)
                for how in ("detached-handle", "edited-copy"):
                    if how == "detached-handle":
                        t = tbl([("id", [1, 1, 2, 3]), cols[1]])
                        k = t.id
                        t.id = [1, 2, 3, 4]
                    else:
                        t = tbl(cols)
                        k = t.id.copy()
                        k[1] = 1; k[2] = 2; k[3] = 3
                    lkeys2, rkeys2 = [(x,) for x in k._underlying], [(x,) for x in [1, 2, 3, 4]]
                    case = {"family": "key vector that carries a column's name", "how": "self-join, left key " + how, "left_keys": list(k._underlying), "right_keys": [1, 2, 3, 4],
                            "method": method, "expect": ex}
                    judge(agg, f"{method}.namesake-self", case, lambda: getattr(t, method)(t, left_on=k, right_on="id", expect=ex),
                          method, ex, cols, cols, lkeys2, rkeys2, h, (t,))


def fam_dupkeys(agg, h, methods, all_expects):
    """several DIFFERENT duplicated keys on the side that must be unique, of kinds that cannot be ordered against each other
    (None and int, str and int in an object column, tuples differing in a None component): still SerifValueError, nothing else"""
    cases = [
        ("int", [None, None, 1, 1, 2]), ("int", [1, 1, None, None]), ("obj", ["a", "a", 1, 1, 2.5]), ("obj", [1, "1", 1, "1"]),
        ("pair", [(1, None), (1, None), (1, "x"), (1, "x")]), ("pair", [(None, 1), (None, 1), (2, 1), (2, 1)]),
    ]
    for kind, dup in cases:
        nk = 2 if kind == "pair" else 1
        keys_dup = [k if nk == 2 else (k,) for k in dup]
        uniq = []
        for k in keys_dup:
            if k not in uniq:
                uniq.append(k)

        def cols_of(keys, base, pname):
            return [(f"k{j}", [k[j] for k in keys]) for j in range(nk)] + [(pname, [base + i for i in range(len(keys))])]
        on = [f"k{j}" for j in range(nk)] if nk == 2 else "k0"
        agg.states += 1; agg.nontrivial += 1
        for method in methods:
            for ex in VALID:
                for dup_side in ("R", "L"):
                    lkeys, rkeys = (uniq, keys_dup) if dup_side == "R" else (keys_dup, uniq)
                    lcols, rcols = cols_of(lkeys, 100, "lp"), cols_of(rkeys, 200, "rp")
                    case = {"family": "several different duplicated keys", "kind": kind, "duplicated_side": dup_side, "keys": [list(k) for k in keys_dup], "method": method, "expect": ex}
                    try:
                        L, R = tbl(lcols), tbl(rcols)
                    except Exception:
                        continue
                    judge(agg, f"{method}.dupkeys", case, lambda: getattr(L, method)(R, left_on=on, right_on=on, expect=ex),
                          method, ex, lcols, rcols, lkeys, rkeys, h, (L, R))


def fam_typednone(agg, h, methods, all_expects):
    """a left (or right) table of one or two rows whose key is None although the key COLUMN is typed - it was cut out of a longer
    table (slice, mask) or masked down; None is a key like any other and pairs with the None keys of the other side"""
    from serif import Vector, Table
    long_keys = [1, None, 2, None, 3]
    other_sets = [[None, 1], [None, None, 2], [1, 2], [None], [3, None, 3]]
    cuts = [("slice-1", lambda t: t[1:2], [None]), ("slice-2", lambda t: t[1:3], [None, 2]), ("mask-1", lambda t: t[[False, False, False, True, False]], [None]),
            ("mask-2", lambda t: t[[False, True, False, True, False]], [None, None]), ("slice-last", lambda t: t[4:5], [3])]
    for cname, cut, small_keys in cuts:
        for other in other_sets:
            for small_side in ("L", "R"):
                for nk in (1, 2):
                    agg.states += 1; agg.nontrivial += 1
                    for method in methods:
                        for ex in (VALID if all_expects else ["many_to_many"]):
                            def mk_long(pname, base):
                                cols_ = [("k0", list(long_keys))] + ([("k1", [7] * len(long_keys))] if nk == 2 else []) + [(pname, [base + i for i in range(len(long_keys))])]
                                return tbl(cols_)
                            try:
                                if small_side == "L":
                                    L = cut(mk_long("lp", 100))
                                    rcols = [("k0", list(other))] + ([("k1", [7] * len(other))] if nk == 2 else []) + [("rp", [200 + i for i in range(len(other))])]
                                    R = tbl(rcols)
                                    lcols = [(c._name, list(c._underlying)) for c in L._underlying]
                                else:
                                    R = cut(mk_long("rp", 200))
                                    lcols = [("k0", list(other))] + ([("k1", [7] * len(other))] if nk == 2 else []) + [("lp", [100 + i for i in range(len(other))])]
                                    L = tbl(lcols)
                                    rcols = [(c._name, list(c._underlying)) for c in R._underlying]
                            except Exception as e:
                                agg.skipped["typednone-setup-" + type(e).__name__] += 1
                                continue
                            lk = [tuple(c[1][i] for c in lcols[:nk]) for i in range(len(lcols[0][1]))]
                            rk = [tuple(c[1][i] for c in rcols[:nk]) for i in range(len(rcols[0][1]))]
                            on = ["k0", "k1"][:nk] if nk == 2 else "k0"
                            case = {"family": "typed key column holding only None after a cut", "cut": cname, "small_side": small_side, "small_keys": small_keys, "other_keys": other,
                                    "key_columns": nk, "method": method, "expect": ex}
                            def run():
                                try:
                                    return getattr(L, method)(R, left_on=on, right_on=on, expect=ex)
                                except Exception as e:
                                    if "mismatched dtypes" in str(e):
                                        raise _NotJudged()
                                    raise
                            try:
                                judge(agg, f"{method}.typednone", case, run, method, ex, lcols, rcols, lk, rk, h, (L, R))
                            except _NotJudged:
                                agg.skipped["dtype-validation-refuses"] += 1


def fam_large(agg, h, methods, all_expects):
    """tables of 255..300 rows on both sides (beyond CPython's small-int cache, beyond typical batch sizes): unique keys, one
    duplicate at the very end, partially overlapping key ranges"""
    for m in (255, 256, 257, 258, 300):
        for rkind in ("unique", "one-dup-at-the-end", "shifted"):
            lk = list(range(m))
            rk = list(range(m)) if rkind == "unique" else (list(range(m - 1)) + [0] if rkind == "one-dup-at-the-end" else list(range(m // 2, m // 2 + m)))
            for swap in (False, True):
                a, b = (rk, lk) if swap else (lk, rk)
                lkeys, rkeys = [(k,) for k in a], [(k,) for k in b]
                lcols = [("k0", list(a)), ("lp", [100000 + i for i in range(len(a))])]
                rcols = [("k0", list(b)), ("rp", [200000 + i for i in range(len(b))])]
                agg.states += 1; agg.nontrivial += 1
                for method in methods:
                    for ex in (VALID if all_expects else ["many_to_many"]):
                        L, R = tbl(lcols), tbl(rcols)
                        case = {"family": "large tables", "rows": [len(a), len(b)], "right_keys": rkind, "swapped": swap, "method": method, "expect": ex}
                        judge(agg, f"{method}.large", case, lambda: getattr(L, method)(R, left_on="k0", right_on="k0", expect=ex),
                              method, ex, lcols, rcols, lkeys, rkeys, h, ())


    # fan-in / fan-out: ONE row of a side is the partner of 255..300 rows of the other (a per-row counter, a per-key bucket, a
    # recursion or a small-int assumption has its threshold there), next to a row without any partner
    for m in (255, 256, 257, 300):
        for swap in (False, True):
            many = [7] * m + [8]
            few = [7, 9]
            a, b = (few, many) if swap else (many, few)
            lkeys, rkeys = [(k,) for k in a], [(k,) for k in b]
            lcols = [("k0", list(a)), ("lp", [100000 + i for i in range(len(a))])]
            rcols = [("k0", list(b)), ("rp", [200000 + i for i in range(len(b))])]
            agg.states += 1; agg.nontrivial += 1
            for method in methods:
                for ex in (VALID if all_expects else ["many_to_many"]):
                    L, R = tbl(lcols), tbl(rcols)
                    case = {"family": "large tables", "rows": [len(a), len(b)], "right_keys": "one row with %d partners" % m, "swapped": swap, "method": method, "expect": ex}
                    judge(agg, f"{method}.large", case, lambda: getattr(L, method)(R, left_on="k0", right_on="k0", expect=ex),
                          method, ex, lcols, rcols, lkeys, rkeys, h, ())


def fam_keyorder(agg, h, methods, all_expects):
    """composite keys given BY NAME: the i-th name of left_on pairs with the i-th name of right_on - whatever the order of the
    columns inside either table and whatever order the names are listed in.  Every column layout of both tables (key columns and
    payload permuted), every listing order, key columns of one kind so that a wrong pairing joins other rows instead of failing."""
    from serif import Vector
    pats = [
        ([(1, 2), (2, 1), (1, 1)], [(1, 2), (2, 1), (2, 2)]),
        ([(1, 2), (1, 2), (2, 1)], [(2, 1), (1, 2), (1, 1)]),
        ([(1, 2, 3), (2, 1, 3), (3, 2, 1)], [(1, 2, 3), (3, 2, 1), (2, 3, 1)]),
    ]
    for lk, rk in pats:
        nk = len(lk[0])
        lnames, rnames = ["a", "b", "c"][:nk], ["x", "y", "z"][:nk]
        for lperm in itertools.permutations(range(nk + 1)):
            for rperm in itertools.permutations(range(nk + 1)):
                if nk == 3 and (lperm[0] > 1 or rperm[1] > 1):
                    continue                    # 3 keys: a third of the layouts of each side (still every relative order of two keys)
                lall = [(lnames[j], [k[j] for k in lk]) for j in range(nk)] + [("lp", [100 + i for i in range(len(lk))])]
                rall = [(rnames[j], [k[j] for k in rk]) for j in range(nk)] + [("rp", [200 + i for i in range(len(rk))])]
                lcols = [lall[i] for i in lperm]
                rcols = [rall[i] for i in rperm]
                for order in itertools.permutations(range(nk)):
                    lon, ron = [lnames[j] for j in order], [rnames[j] for j in order]
                    lkeys = [tuple(k[j] for j in order) for k in lk]
                    rkeys = [tuple(k[j] for j in order) for k in rk]
                    agg.states += 1; agg.nontrivial += 1
                    # each key is given by NAME or as the table's own COLUMN, independently per position and per side (a tuple of
                    # names is refused by design: "strings, Vectors, or lists")
                    if nk == 2:
                        specs = list(itertools.product("nc", repeat=4))
                    else:
                        specs = [tuple("nnnnnn"), tuple("cccccc"), tuple("ncnccn"), tuple("cnnncc"), tuple("nncccn")]
                    for method in methods:
                        for spec in specs:
                            L, R = tbl(lcols), tbl(rcols)
                            lsp, rsp = spec[:nk], spec[nk:]
                            case = {"family": "key names listed in another order than the columns", "left_columns": [c[0] for c in lcols], "right_columns": [c[0] for c in rcols],
                                    "left_on": lon, "right_on": ron, "method": method, "given_as": ["name" if c == "n" else "column" for c in spec]}
                            lo = [nm if f == "n" else L[nm] for nm, f in zip(lon, lsp)]
                            ro = [nm if f == "n" else R[nm] for nm, f in zip(ron, rsp)]
                            judge(agg, f"{method}.keyorder", case, lambda: getattr(L, method)(R, left_on=lo, right_on=ro, expect="many_to_many"),
                                  method, "many_to_many", lcols, rcols, lkeys, rkeys, h, (L, R))
    # ONE column of a side paired with TWO different columns of the other side (node == src and node == dst), both ways round
    lk = [(1,), (2,), (3,), (2,)]
    rk = [(1, 1), (2, 3), (2, 2), (3, 2), (2, 2)]
    for swap in (False, True):
        for form in ("name", "column"):
            for method in methods:
                one = [("node", [k[0] for k in lk]), ("p", [100 + i for i in range(len(lk))])]
                two = [("src", [k[0] for k in rk]), ("dst", [k[1] for k in rk]), ("q", [200 + i for i in range(len(rk))])]
                lcols, rcols = (two, one) if swap else (one, two)
                L, R = tbl(lcols), tbl(rcols)
                one_t, two_t = (R, L) if swap else (L, R)
                one_on = ["node", "node"] if form == "name" else [one_t["node"], one_t["node"]]
                two_on = ["src", "dst"] if form == "name" else [two_t["src"], two_t["dst"]]
                lkeys = [(k[0], k[0]) for k in lk]
                rkeys = list(rk)
                if swap:
                    lkeys, rkeys = rkeys, lkeys
                case = {"family": "key names listed in another order than the columns", "one_column_paired_with_two": True, "swapped": swap, "method": method, "given_as": form}
                agg.states += 1; agg.nontrivial += 1
                judge(agg, f"{method}.keyorder", case,
                      lambda: getattr(L, method)(R, left_on=(two_on if swap else one_on), right_on=(one_on if swap else two_on), expect="many_to_many"),
                      method, "many_to_many", lcols, rcols, lkeys, rkeys, h, (L, R))


class _NotJudged(Exception):
    pass


class _S(str):
    pass


FAMILIES = {"skew": fam_skew, "args": fam_args, "dupnames": fam_dupnames, "twice": fam_twice, "self": fam_self, "expectstr": fam_expectstr,
            "namesake": fam_namesake, "dupkeys": fam_dupkeys, "typednone": fam_typednone, "large": fam_large, "keyorder": fam_keyorder}


def run_extra_unit(unit, methods, all_expects=False):
    """unit = ('extra', family)"""
    _, fam = unit[:2]
    agg = Agg()
    h = hashlib.sha256()
    FAMILIES[fam](agg, h, methods, all_expects)
    agg.digests[repr(unit) + repr(methods)] = h.hexdigest()
    agg.sample({"family": fam})
    return agg
