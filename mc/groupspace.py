"""Shared input space and reference model for aggregate (C12) and window (C13)."""
from __future__ import annotations

import hashlib
import itertools
import math

from .core import Agg, V
from .models import canon_elem, obs

KEY_ALPHA = {
    "str": ["", "b", None],       # '' and 0 are keys / values like any other (falsy values must not be taken for "missing")
    "int": [0, 2, None],
    "intc": [-1, -2, None],     # hash(-1) == hash(-2)
    "eq": [1, True, 2],         # 1 == True (same group) but they are different values: key columns must reproduce them as they are
}
VAL_ALPHA = [0, 2, None]
FNS = ["sum", "mean", "min", "max", "count", "stdev"]
FORMS = ("name", "column", "external")

# aggregate-argument menus: fn -> list of value sources; sources: v (int col), w (float col),
# x1/x2 (two DIFFERENT external vectors, both unnamed), ap = custom apply on v
MENUS = {
    "sum": {"sum": ["v"]}, "mean": {"mean": ["v"]}, "min": {"min": ["v"]}, "max": {"max": ["v"]},
    "count": {"count": ["v"]}, "stdev": {"stdev": ["v"]},
    "all6": {f: ["v"] for f in FNS},
    "twice": {"sum": ["v", "v"], "count": ["v", "v"]},
    "two-cols": {"sum": ["v", "w"], "mean": ["w"], "min": ["w"], "max": ["w"], "stdev": ["w"]},
    "two-unnamed": {"sum": ["x1", "x2"], "max": ["x2", "x1"]},
    "sum-mean-unnamed": {"sum": ["x1"], "mean": ["x2"], "count": ["x2"]},
    "apply": {"sum": ["v"], "apply": ["v"]},
    "two-same-name": {"sum": ["n1", "n2"], "mean": ["n2"], "min": ["n1"]},      # two DIFFERENT vectors that carry the same name
    "lshift-built": {"count": ["xl"], "sum": ["xl"], "max": ["xl"]},             # a value column produced by concatenation (<<)
    # several columns under ONE function whose None sit at different rows, and a later-listed function over yet another column
    "two-counts": {"count": ["v", "x2"], "sum": ["x2"]},
    "count-stdev": {"count": ["v"], "stdev": ["x2"], "max": ["x1"]},
    # EVERY function over two columns (and in the other order): no function carries anything over from its first column to its second
    "all6-two-cols": {f: (["v", "w"] if i % 2 == 0 else ["w", "v"]) for i, f in enumerate(FNS)},
}


def wvals(vals):
    return [None if x is None else x + 0.5 for x in vals]


def x2vals(vals):
    return [None if x is None else x * 10 for x in reversed(vals)]


def source_values(src, vals):
    if src in ("v", "x1", "n1", "xl"):
        return list(vals)
    if src == "w":
        return wvals(vals)
    if src in ("x2", "n2"):
        return x2vals(vals)
    raise KeyError(src)


# ---------------------------------------------------------------------------- reference
def groups_of(keys):
    """[(key, [row indices])] in first-appearance order; == on tuples, None is a key."""
    order = []
    for i, k in enumerate(keys):
        for ent in order:
            if ent[0] == k:
                ent[1].append(i)
                break
        else:
            order.append((k, [i]))
    return order


def ref_fn(fn, vals):
    clean = [v for v in vals if v is not None]
    if fn == "sum":
        return sum(clean)
    if fn == "count":
        return len(clean)
    if fn == "mean":
        return sum(clean) / len(clean) if clean else None
    if fn == "min":
        return min(clean) if clean else None
    if fn == "max":
        return max(clean) if clean else None
    if fn == "stdev":
        n = len(clean)
        if n < 2:
            return None
        m = sum(clean) / n
        return math.sqrt(sum((x - m) ** 2 for x in clean) / (n - 1))
    raise KeyError(fn)


def ref_aggregate(keys, vals, menu):
    """(key columns, output columns) ; output columns = [(fn, src, [value per group])]."""
    gs = groups_of(keys)
    nk = len(keys[0]) if keys else None
    outs = []
    for fn in FNS:
        for src in menu.get(fn, []):
            data = source_values(src, vals)
            outs.append((fn, src, [ref_fn(fn, [data[i] for i in rows]) for _, rows in gs]))
    if "apply" in menu:
        data = source_values("v", vals)
        outs.append(("apply", "v", [repr([data[i] for i in rows]) for _, rows in gs]))
    return gs, outs


def value_close(a, b):
    if a is None or b is None:
        return a is b
    if isinstance(a, float) or isinstance(b, float):
        if type(a) is not type(b):
            return False
        return math.isclose(a, b, rel_tol=1e-9, abs_tol=1e-12)
    return type(a) is type(b) and a == b


# ---------------------------------------------------------------------------- building real inputs
def build(keys, vals, nkeys, form, variant=None):
    """Return (table, over_spec); variant = index into provenance.TABLE_ROUTES or None (direct construction)."""
    from serif import Table, Vector
    kcols = [(f"k{j}", [k[j] for k in keys]) for j in range(nkeys)]
    vcols = [("v", list(vals)), ("w", wvals(vals))]
    if form == "external":
        cols = vcols
    else:
        cols = kcols + vcols
    if variant is None:
        t = Table([Vector(list(c), name=nm) for nm, c in cols])
    else:
        from . import provenance
        _, t = provenance.table_variant(cols, variant, flagged=True)
    if form == "name":
        over = [nm for nm, _ in kcols]
    elif form == "column":
        over = [t[nm] for nm, _ in kcols]
    else:
        over = [Vector(list(c)) for _, c in kcols]     # keys not stored in the table, unnamed
    if nkeys == 1:
        over = over[0]
    return t, over


def build_kwargs(t, vals, menu, form, calls):
    from serif import Vector
    cache = {}

    def src(s):
        if s in ("v", "w"):
            return s if form == "name" else t[s]
        if s not in cache:
            data = source_values(s, vals)
            if s in ("n1", "n2"):
                cache[s] = Vector(data, name="dup")
            elif s == "xl":
                h = len(data) // 2
                cache[s] = (Vector(data[:h]) << Vector(data[h:])) if data[:h] else Vector(data)
            else:
                cache[s] = Vector(data)
        return cache[s]

    kw = {}
    for fi, fn in enumerate(FNS):
        if fn in menu:
            items = [src(s) for s in menu[fn]]
            # one column: bare or in a one-element list; several: list or tuple (all accepted argument forms)
            if len(items) == 1:
                kw[f"{fn}_over"] = items[0] if (len(vals) + fi) % 2 == 0 else [items[0]]
            else:
                kw[f"{fn}_over"] = items if (len(vals) + fi) % 2 == 0 else tuple(items)
    if "apply" in menu:
        def f(values):
            calls.append(list(values))
            return repr(list(values))
        kw["apply"] = {"custom": (src("v"), f)}
    return kw


def key_lists(kind, nkeys, n):
    tuples = list(itertools.product(KEY_ALPHA[kind], repeat=nkeys))
    return itertools.product(tuples, repeat=n)


def plan_units(thorough):
    """(kind, nkeys, nrows, first-key filter, level); level 'full' = every key form x every menu,
    'core' = keys by name, menus all6/apply/two-unnamed."""
    units = []
    if not thorough:
        for kind in KEY_ALPHA:
            for n in range(0, 3):
                units.append((kind, 1, n, None, "full" if kind != "eq" else "core"))
            for first in KEY_ALPHA[kind]:
                units.append((kind, 1, 3, (first,), "full" if kind != "eq" else "core"))
        for first in KEY_ALPHA["str"]:
            units.append(("str", 1, 4, (first,), "core"))
        for n in range(0, 3):
            units.append(("str", 2, n, None, "full"))
        for first in itertools.product(KEY_ALPHA["str"], repeat=2):
            units.append(("str", 2, 3, first, "core"))
        return units
    for kind in KEY_ALPHA:
        for n in range(0, 5):
            if n >= 4:
                for first in KEY_ALPHA[kind]:
                    units.append((kind, 1, n, (first,), "full"))
            else:
                units.append((kind, 1, n, None, "full"))
        for first in KEY_ALPHA[kind]:
            units.append((kind, 1, 5, (first,), "core"))
    for kind in ("str", "int"):
        for n in range(0, 4):
            if n >= 3:
                for first in itertools.product(KEY_ALPHA[kind], repeat=2):
                    units.append((kind, 2, n, first, "full"))
            else:
                units.append((kind, 2, n, None, "full"))
        for first in itertools.product(KEY_ALPHA[kind], repeat=2):
            units.append((kind, 2, 4, first, "core"))
    for n in range(0, 3):
        units.append(("int", 3, n, None, "core"))
    return units


def cases(unit):
    kind, nkeys, n, first = unit[:4]
    for keys in key_lists(kind, nkeys, n):
        if first is not None and (n == 0 or keys[0] != tuple(first)):
            continue
        for vals in itertools.product(VAL_ALPHA, repeat=n):
            yield list(keys), list(vals)


def menus_for(nkeys, n, form, level="full"):
    """Which argument menus are run for which part of the space (all of them on 1-key tables,
    the core ones on composite keys)."""
    if level == "core":
        return ["all6", "apply", "two-unnamed"] if form == "name" else []
    if nkeys == 1:
        if form == "name":
            if n >= 4:
                return [m for m in MENUS if m not in ("two-same-name", "lshift-built", "sum-mean-unnamed", "twice", "count-stdev")]
            return list(MENUS)
        return ["all6", "two-unnamed", "apply"]
    return ["all6", "two-cols", "apply", "all6-two-cols"] if form == "name" else ["all6"]


def describe(kind, nkeys, form, keys, vals, menu, method):
    return {"kind": kind, "nkeys": nkeys, "form": form, "keys": [list(k) for k in keys], "values": list(vals),
            "menu": menu, "method": method}


def py_repro(keys, vals, nkeys, form, menu, method):
    cols = [(f"k{j}", [k[j] for k in keys]) for j in range(nkeys)] if form != "external" else []
    cols += [("v", list(vals)), ("w", wvals(vals))]
    tb = "Table({" + ", ".join(f"{nm!r}: {c!r}" for nm, c in cols) + "})"
    if form == "external":
        ov = "[" + ", ".join(f"Vector({[k[j] for k in keys]!r})" for j in range(nkeys)) + "]"
    else:
        ov = repr([f"k{j}" for j in range(nkeys)])
    args = []
    for fn in FNS:
        if fn in MENUS[menu]:
            srcs = []
            for s in MENUS[menu][fn]:
                srcs.append(repr(s) if s in ("v", "w") else f"Vector({source_values(s, vals)!r}" + (", name='dup')" if s in ("n1", "n2") else ")"))
            args.append(f"{fn}_over=[{', '.join(srcs)}]")
    if "apply" in MENUS[menu]:
        args.append("apply={'custom': ('v', lambda xs: repr(list(xs)))}")
    return ("from serif import Table, Vector\n" f"t = {tb}\nres = t.{method}(over={ov}, {', '.join(args)})\n"
            "print(res.column_names()); print([tuple(r) for r in res])")
